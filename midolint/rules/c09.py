"""C09 - meta message codec accepts and preserves every documented value."""
from __future__ import annotations

import ast

from .. import astq, codec, reference, smf, wire
from ..absint import AbsRaise, ADict, AList, AObj, Opaque, SeqVar, log_event, assuming, only_length_splits
from ..bits import AV, Sym
from ..domains import check_domain, looks_undecided, semantic_domain
from ..fold import FuncRef, UNKNOWN
from ..intset import IntSet, Undecidable
from ..model import AnalysisError, Unsupported, unparse
from ..wire import AFile, Field, StrSym, VLQ

LEVEL = 'other'
EXPLANATION = (
    'Per meta type (17 spec classes, methods resolved through the MRO): (1) the integer set accepted by the check method '
    'for each attribute is derived from its guards (interval sets) and compared with docs/meta_message_types.rst; every '
    'declared attribute must have a check; (2) MetaMessage.bytes() is abstractly interpreted with the attributes as symbols '
    'over the *checked* domain: FF, the SMF type byte, VLQ(len(payload)) over the very payload that follows, each payload '
    'item within 0..255 and the bit layout equal to the SMF 1.0 table; fields OR-ed into one byte must not overlap for the '
    'whole checked domain; (3) build_meta_message (the file reader path) and MetaMessage.from_bytes are interpreted on that '
    'encoding and must give back the attributes (identity bit for bit); from_bytes is also run on concrete payload lengths '
    '0,1,127,128,129,16383,16384 (VLQ size boundaries) and must delimit the length by its continuation bit; (4) all 256 '
    'power-of-two denominators and all 30 key signatures are enumerated through check/encode/decode (a finite table walk '
    'over constants), non powers of two and out-of-range values must be rejected; (5) MetaMessage.__init__/_setattr: every '
    'keyword goes through the spec check before the first store; (6) the spec registry registers each class under its '
    'type byte and its name; read_bytes rejects only sizes above 1 000 000.')
TRUSTED = ['midolint abstract interpreter, bit-layout and wire domains', 'SMF 1.0 meta event table and docs/meta_message_types.rst (midolint.reference)',
           'text payload summaries encode_string/decode_string (wiring checked in C17)']
ASSUMPTIONS = ['text is encodable in the current charset (codec behaviour, C17)']

META = wire.META_MOD


def spec_classes(ctx):
    return wire.meta_registry(ctx)


def r09_registry(ctx):
    reg = spec_classes(ctx)
    m = ctx.p.module(META)
    w = f'{m.relpath}:1 MetaSpec_*'
    n = 0
    for name, (tb, attrs, plen) in reference.META_SPECS.items():
        c = reg.get(name)
        if c is None:
            ctx.fail('R08.4', f'metaspec({name})', w, f'no MetaSpec_{name} class', construct=f'{m.relpath}::MetaSpec_{name}')
            continue
        n += 1
        wc = f'{m.relpath}:{c.node.lineno} {c.name}'
        got_tb = ctx.f.try_eval(ctx.p.class_attr(c, 'type_byte'), {}, m) if ctx.p.class_attr(c, 'type_byte') is not None else None
        got_at = ctx.f.try_eval(ctx.p.class_attr(c, 'attributes'), {}, m) if ctx.p.class_attr(c, 'attributes') is not None else None
        got_df = ctx.f.try_eval(ctx.p.class_attr(c, 'defaults'), {}, m) if ctx.p.class_attr(c, 'defaults') is not None else None
        ctx.require(got_tb == tb, 'R08.4', f'metaspec({name}).type_byte', wc, f'type byte {got_tb!r}, SMF 1.0 says {tb:#04x}',
                    construct=f'{c.qname}::type_byte')
        ctx.require(got_at is not UNKNOWN and list(got_at or []) == attrs, 'R09.3', f'metaspec({name}).attributes', wc,
                    f'attributes {got_at!r}, documented {attrs}', construct=f'{c.qname}::attributes')
        ctx.require(got_df is not UNKNOWN and got_df is not None and len(got_df) == len(attrs), 'R09.3', f'metaspec({name}).defaults', wc,
                    f'defaults {got_df!r} do not pair with {attrs}', construct=f'{c.qname}::defaults')
    extra = set(reg) - set(reference.META_SPECS)
    ctx.require(not extra, 'R08.4', 'metaspec.extra', w, f'spec classes not in the SMF table: {sorted(extra)}')
    ctx.floor('R09-specs', n, 17)
    # the registration itself: the module body of meta.py is run abstractly (whatever fills the registries - a function scanning
    # globals(), decorators, a loop over a list of classes) and what is left in _META_SPECS / _META_SPEC_BY_TYPE must be exactly
    # the registry the other rules assume (wire.meta_registry: one spec object per MetaSpec_* class, reachable under its type
    # byte and its name in _META_SPECS and under its name in _META_SPEC_BY_TYPE, with type and settable_attributes)
    ams = ctx.fn(ctx.p.func(META, 'add_meta_spec'))
    wa = ctx.where(ams)
    ns = ctx.f.module_namespace(m)
    # the registries are found by what they hold, not by their names: every dictionary of the module - a global, or an attribute
    # of a module-level object - whose values are spec objects
    spec_classes_ = set(id(c) for c in reg.values())

    def as_dict(v):
        if isinstance(v, ADict):
            return v.d
        return v if isinstance(v, dict) else None

    def is_registry(d):
        return bool(d) and all(isinstance(x, AObj) and x.cls is not None and id(x.cls) in spec_classes_ for x in d.values())
    tables = []
    for gname, gv in (ns or {}).items():
        cands = [(gname, gv)]
        if isinstance(gv, AObj):
            cands += [(f'{gname}.{an}', av) for an, av in gv.attrs.items()]
        for label, v in cands:
            d = as_dict(v)
            if d is not None and is_registry(d) and not any(d is t for _, t in tables):
                tables.append((label, d))
    if not tables:
        ctx.fail('R09.5', 'registry', wa, f'running the module body of {m.relpath} leaves no dictionary of spec objects behind: the registries '
                 'add_meta_spec fills cannot be found', construct=f'{ams.qname}::registries')
        return
    want_names = set(reg)
    names_found = {k for _, d in tables for k in d if isinstance(k, str)}
    ctx.require(names_found == want_names, 'R09.5', 'registry.names', wa,
                f'the registries {[l for l, _ in tables]} know the type names {sorted(names_found)}; the MetaSpec_* classes are {sorted(want_names)}',
                construct=f'{ams.qname}::names')
    tbs = set()
    for name, c in sorted(reg.items()):
        tb = ctx.f.try_eval(ctx.p.class_attr(c, 'type_byte'), {}, m) if ctx.p.class_attr(c, 'type_byte') is not None else None
        tbs.add(tb)
        attrs_ = ctx.f.try_eval(ctx.p.class_attr(c, 'attributes'), {}, m) if ctx.p.class_attr(c, 'attributes') is not None else []
        by_name = [d[name] for _, d in tables if name in d]
        by_byte = [d[tb] for _, d in tables if tb in d]
        sp_ = by_name[0] if by_name else None
        ok = isinstance(sp_, AObj) and sp_.cls == c and sp_.attrs.get('type') == name and bool(by_byte) and all(x is sp_ for x in by_name + by_byte)
        sa = sp_.attrs.get('settable_attributes') if isinstance(sp_, AObj) else None
        try:
            sa_ok = set(sa) == set(attrs_ or []) | {'time'}
        except TypeError:
            sa_ok = False
        ctx.require(ok and sa_ok, 'R09.5', f'registry({name})', wa,
                    f'after import: by name {by_name!r}, by type byte {tb!r} {by_byte!r}, settable {sa!r}; '
                    f'expected one MetaSpec_{name} object under its name and its type byte with type {name!r} and settable attributes {sorted(set(attrs_ or []) | {"time"})}',
                    construct=f'{ams.qname}::registration')
    stray = [k for _, d in tables for k in d if k not in want_names and k not in tbs]
    ctx.require(not stray, 'R09.5', 'registry.stray', wa, f'the registries have entries that belong to no MetaSpec_* class: {stray}', construct=f'{ams.qname}::stray')


def _check_fn(ctx, c):
    o, fn = ctx.p.lookup_method(c, 'check')
    return o, fn


def r09_3(ctx):
    """documented domain = checked domain."""
    reg = spec_classes(ctx)
    n = 0
    for name, (tb, attrs, plen) in reference.META_SPECS.items():
        c = reg.get(name)
        if c is None:
            continue
        o, fn = _check_fn(ctx, c)
        for attr in attrs:
            inst = f'{name}.{attr}'
            wc = f'{c.module.relpath}:{c.node.lineno} {c.name}'
            if fn is None or (o is not None and o.name == 'MetaSpec'):
                ctx.fail('R09.3', f'check({inst})', wc, f'{c.name} declares attribute {attr!r} but inherits the no-op check: any value is accepted '
                         'and encoded', construct=f'{c.qname}::check({attr})::missing')
                n += 1
                continue
            ctx.fn(fn)
            dom = reference.META_DOMAINS.get((name, attr))
            n += 1
            if dom is not None and (name, attr) != ('time_signature', 'denominator'):
                try:
                    r = check_domain(ctx.p, ctx.f, fn, 'value', {'name': attr})
                except (Undecidable, Unsupported):
                    r = None
                if looks_undecided(r):
                    # the tests are not in the method body itself (a field helper object, a table...): decide on executions
                    try:
                        r = semantic_domain(ctx, lambda ai_, v, c=c, fn=fn, attr=attr: ai_.call_function(fn, [AObj(c, {}), attr, v], {}),
                                            extra=(dom[0], dom[1]))
                    except (Undecidable, AnalysisError) as e:
                        ctx.fail('R09.3', f'domain({inst})', ctx.where(fn), f'cannot derive the accepted domain: {e}',
                                 construct=f'{fn.qname}::domain({attr})')
                        continue
                ctx.paths += r.paths
                ctx.require(r.accepted == IntSet.range(*dom), 'R09.3', f'domain({inst})', ctx.where(fn),
                            f'check accepts {r.accepted}, documented {dom[0]}..{dom[1]}', construct=f'{fn.qname}::domain({attr})')
                ctx.require(set(r.rejected) <= {'ValueError'} and r.type_test is not None and 'Integral' in r.type_test, 'R09.3',
                            f'errors({inst})', ctx.where(fn), f'rejections raise {sorted(r.rejected)}; type test {r.type_test}',
                            construct=f'{fn.qname}::errors({attr})')
    ctx.floor('R09.3', n, 24)
    # the helpers
    ci = ctx.fn(ctx.p.func(META, 'check_int'))
    try:
        r = check_domain(ctx.p, ctx.f, ci, 'value', {'low': 10, 'high': 20})
    except (Undecidable, Unsupported):
        r = None
    if looks_undecided(r):
        r = semantic_domain(ctx, lambda ai_, v: ai_.call_function(ci, [v, 10, 20], {}), extra=(10, 20))
    ctx.require(r.accepted == IntSet.range(10, 20) and set(r.rejected) == {'ValueError'} and r.type_test and 'Integral' in r.type_test
                and r.type_test_first, 'R09.5', 'check_int', ctx.where(ci),
                f'check_int(value, 10, 20) accepts {r.accepted}, rejects with {sorted(r.rejected)}, type test {r.type_test}',
                construct=f'{ci.qname}::behaviour')
    cs = ctx.fn(ctx.p.func(META, 'check_str'))
    ai = smf.make_interp(ctx)
    o1 = ai.explore(lambda: ai.call_function(cs, [StrSym('T')], {}))
    o2 = ai.explore(lambda: ai.call_function(cs, [5], {}))
    ctx.require([o.kind for o in o1] == ['return'] and [(o.kind, o.exc) for o in o2] == [('raise', 'TypeError')], 'R09.5', 'check_str',
                ctx.where(cs), f'check_str outcomes {o1} / {o2}', construct=f'{cs.qname}::behaviour')


def _meta_bytes(ctx, ai, type_, attrs, time=0):
    cls = ctx.p.cls(META, 'MetaMessage')
    o, fn = ctx.p.lookup_method(cls, 'bytes')
    ctx.fn(fn)

    def thunk():
        return ai.call_function(fn, [wire.make_meta(ai, ctx, type_, dict(attrs), time)], {})
    return fn, ai.explore(thunk)


def _sym_attrs(name, full_domain=True):
    """Attributes as symbols over the documented (= checked) domain."""
    out = {}
    for attr in reference.META_SPECS[name][1]:
        dom = reference.META_DOMAINS.get((name, attr))
        if dom is not None:
            out[attr] = smf.sym(attr, dom[1] - dom[0], dom[0])
    return out


def r09_1(ctx):
    """Per type layout: items are bytes, fields do not overlap, layout = SMF, decode(encode) = identity."""
    ai = smf.make_interp(ctx)
    bm = ctx.fn(ctx.p.func(META, 'build_meta_message'))
    cases = []
    for name in ('sequence_number', 'channel_prefix', 'midi_port', 'set_tempo'):
        cases.append((name, _sym_attrs(name), name))
    for rate in (24, 25, 29.97, 30):
        a = _sym_attrs('smpte_offset')
        a['frame_rate'] = rate
        cases.append(('smpte_offset', a, f'smpte_offset({rate})'))
    for t in reference.TEXT_META:
        cases.append((t, {reference.META_SPECS[t][1][0]: StrSym('T')}, t))
    cases.append(('end_of_track', {}, 'end_of_track'))
    cases.append(('sequencer_specific', {'data': AList([SeqVar('S', 255)], 'tuple')}, 'sequencer_specific'))
    n = 0
    for type_, attrs, label in cases:
        n += 1
        fn, outs = _meta_bytes(ctx, ai, type_, attrs)
        w = ctx.where(fn)
        reg = spec_classes(ctx)
        c = reg[type_]
        o, encf = ctx.p.lookup_method(c, 'encode')
        we = ctx.where(encf) if encf is not None else w
        cons = f'{encf.qname if encf else fn.qname}'
        inst = f'bytes({label})'
        if not only_length_splits(outs) or not all(isinstance(o_.value, AList) for o_ in outs):
            ctx.fail('R09.1', inst, we, f'encoding does not complete on one path: {outs}', construct=cons + '::outcomes')
            continue
        for o_e in outs:
          with assuming(o_e):
            items = o_e.value.items
            tb = reference.META_SPECS[type_][0]
            ok = len(items) >= 3 and items[0] == 0xff and items[1] == tb and (isinstance(items[2], VLQ) or wire.item_equal(VLQ(items[2]), items[2]))
            ctx.require(ok, 'R09.4', f'{inst}.prefix', w, f'encoding starts {smf.describe(items[:3])}, expected FF {tb:02X} <length>',
                        construct=f'{fn.qname}::prefix')
            if not ok:
                continue
            payload = items[3:]
            ctx.require(wire.item_equal(items[2], VLQ(wire.size_of(payload))), 'R09.4', f'{inst}.length', w,
                        f'length prefix is {items[2]!r} but {wire.size_of(payload)!r} payload bytes follow',
                        construct=f'{fn.qname}::length')
            # item ranges and overlaps
            bad_overlap = False
            for i, it in enumerate(payload):
                if isinstance(it, AV):
                    if it.is_top:
                        is_ov = 'overlap' in (it.top or '')
                        bad_overlap = bad_overlap or is_ov
                        key = 'overlap' if is_ov else 'layout'
                        ctx.fail('R09.1', f'{inst}.byte{i}', we,
                                 f'payload byte {i}: {it.top} - for the checked attribute domain the fields do not fit into one byte',
                                 construct=cons + f'::byte{i}::{key}')
                        continue
                    lo, hi = it.interval()
                    ctx.require(0 <= lo and hi <= 255, 'R09.1', f'{inst}.byte{i}.range', we,
                                f'payload item {i} ranges over [{lo},{hi}] for checked values: not a byte', construct=cons + f'::byte{i}::range')
                elif isinstance(it, int):
                    ctx.require(0 <= it <= 255, 'R09.1', f'{inst}.byte{i}.range', we, f'payload item {i} is {it}', construct=cons + f'::byte{i}::range')
                elif isinstance(it, SeqVar):
                    ctx.require(it.sym.umax <= 255, 'R09.1', f'{inst}.byte{i}.range', we, f'payload run {it!r} is not bytes',
                                construct=cons + f'::byte{i}::range')
            if type_ == 'smpte_offset' or bad_overlap:
                continue
            ref = smf.ref_meta_payload(type_, attrs)
            ctx.require(wire.items_equal(payload, ref), 'R09.1', f'{inst}.layout', we,
                        f'payload is {smf.describe(payload)}, SMF 1.0 layout is {smf.describe(ref)}', construct=cons + '::layout')
            # decode back through the file reader path
            holder = {}

            def dthunk():
                return ai.call_function(bm, [tb, AList(list(payload), 'list'), smf.tsym('t9')], {})
            douts = ai.explore(dthunk)
            o2, decf = ctx.p.lookup_method(c, 'decode')
            wd = ctx.where(decf) if decf is not None else ctx.where(bm)
            ev = smf.Ev('meta', type_, attrs, smf.tsym('t9'))
            ok = len(douts) == 1 and douts[0].kind == 'return'
            why = f'decoding the encoding: {douts}'
            if ok:
                ok, why = smf.same_message(ev, douts[0].value, ctx)
            ctx.require(ok, 'R09.1', f'decode({label})', wd, f'decode(encode(m)) != m: {why}',
                        construct=f'{decf.qname if decf else bm.qname}::identity')
    ctx.floor('R09.1', n, 18)
    # smpte_offset: layout and identity on the part of the domain that fits (hours 0..31); overlap on the full checked domain
    for rate in (24, 25, 29.97, 30):
        a = {'frame_rate': rate, 'hours': smf.sym('hours', 31), 'minutes': smf.sym('minutes', 59), 'seconds': smf.sym('seconds', 59),
             'frames': smf.sym('frames', 255), 'sub_frames': smf.sym('sub_frames', 99)}
        fn, outs = _meta_bytes(ctx, ai, 'smpte_offset', a)
        c = spec_classes(ctx)['smpte_offset']
        o, encf = ctx.p.lookup_method(c, 'encode')
        o, decf = ctx.p.lookup_method(c, 'decode')
        ok = len(outs) == 1 and outs[0].kind == 'return' and isinstance(outs[0].value, AList)
        if ok:
            payload = outs[0].value.items[3:]
            ref = smf.ref_meta_payload('smpte_offset', a)
            ctx.require(wire.items_equal(payload, ref), 'R09.1', f'bytes(smpte_offset({rate}), hours<32).layout', ctx.where(encf),
                        f'payload is {smf.describe(payload)}, SMF 1.0 layout is {smf.describe(ref)}', construct=f'{encf.qname}::layout')
            douts = ai.explore(lambda: ai.call_function(bm, [0x54, AList(list(payload), 'list'), smf.tsym('t9')], {}))
            ok2 = len(douts) == 1 and douts[0].kind == 'return'
            why = f'{douts}'
            if ok2:
                ok2, why = smf.same_message(smf.Ev('meta', 'smpte_offset', a, smf.tsym('t9')), douts[0].value, ctx)
            ctx.require(ok2, 'R09.1', f'decode(smpte_offset({rate}), hours<32)', ctx.where(decf), f'decode(encode(m)) != m: {why}',
                        construct=f'{decf.qname}::identity')
        else:
            ctx.fail('R09.1', f'bytes(smpte_offset({rate}), hours<32)', ctx.where(encf), f'{outs}', construct=f'{encf.qname}::outcomes')
    for q in ai.inlined:
        ctx.functions.add(q)


def r09_tables(ctx):
    """key signature and frame rate tables; signed()/unsigned() formats."""
    m = ctx.p.module(META)
    kd = ctx.f.table(META, '_key_signature_decode')
    ke = ctx.f.table(META, '_key_signature_encode')
    w = f'{m.relpath}:1 _key_signature_decode'
    ctx.require(kd == reference.KEY_SIGNATURES, 'R09.1', 'key-table', w,
                'key signature table differs from the circle of fifths: ' + str(sorted(set(kd.items()) ^ set(reference.KEY_SIGNATURES.items()))[:4]),
                construct=f'{m.relpath}::_key_signature_decode')
    ctx.require(ke == {v: k for k, v in reference.KEY_SIGNATURES.items()} and len(ke) == 30, 'R09.1', 'key-table-inverse', w,
                'the encode table is not the inverse of the decode table (30 entries)', construct=f'{m.relpath}::_key_signature_encode')
    fd = ctx.f.table(META, '_smpte_framerate_decode')
    fe = ctx.f.table(META, '_smpte_framerate_encode')
    ctx.require(fd == reference.SMPTE_RATES and fe == {v: k for k, v in reference.SMPTE_RATES.items()}, 'R09.1', 'framerate-table',
                f'{m.relpath}:1 _smpte_framerate_decode', f'frame rate tables {fd} / {fe}', construct=f'{m.relpath}::_smpte_framerate')
    # all 30 keys through check/encode/decode
    ai = smf.make_interp(ctx)
    bm = ctx.fn(ctx.p.func(META, 'build_meta_message'))
    c = spec_classes(ctx)['key_signature']
    o, encf = ctx.p.lookup_method(c, 'encode')
    o, decf = ctx.p.lookup_method(c, 'decode')
    n = 0
    for (sf, mi), key in sorted(reference.KEY_SIGNATURES.items()):
        n += 1
        fn, outs = _meta_bytes(ctx, ai, 'key_signature', {'key': key})
        want = [0xff, 0x59, None, sf & 0xff, mi]
        ok = len(outs) == 1 and outs[0].kind == 'return' and isinstance(outs[0].value, AList) and len(outs[0].value.items) == 5 \
            and outs[0].value.items[3:] == want[3:] and wire.item_equal(outs[0].value.items[2], VLQ(2))
        ctx.require(ok, 'R09.1', f'bytes(key_signature {key})', ctx.where(encf), f'encodes to {outs}, expected FF 59 02 {sf & 0xff:02X} {mi:02X}',
                    construct=f'{encf.qname}::table')
        douts = ai.explore(lambda: ai.call_function(bm, [0x59, AList([sf & 0xff, mi], 'list'), 7], {}))
        ok = len(douts) == 1 and douts[0].kind == 'return' and isinstance(douts[0].value, AObj) and douts[0].value.attrs.get('key') == key \
            and douts[0].value.attrs.get('time') == 7
        ctx.require(ok, 'R09.1', f'decode(key_signature {key})', ctx.where(decf), f'FF 59 02 {sf & 0xff:02X} {mi:02X} decodes to {douts}',
                    construct=f'{decf.qname}::table')
    ctx.floor('R09.1-keys', n, 30)
    cls = ctx.p.cls(META, 'MetaMessage')
    o, init = ctx.p.lookup_method(cls, '__init__')
    for badkey in ('H', 'c', 'Cbm', 5, None):
        outs = ai.explore(lambda: ai.call_function(init, [AObj(cls, {}), 'key_signature'], {'key': badkey}))
        ctx.require(bool(outs) and all(o_.kind == 'raise' and o_.exc in ('ValueError', 'TypeError') for o_ in outs), 'R09.3',
                    f'key_signature({badkey!r})', ctx.where(init), f'an undocumented key is not rejected: {outs}',
                    construct=f'{c.qname}::check(key)::reject')
    for q in ai.inlined:
        ctx.functions.add(q)


def r09_2(ctx):
    """Exact power-of-two handling: all 256 documented denominators, and rejections."""
    ai = smf.make_interp(ctx)
    cls = ctx.p.cls(META, 'MetaMessage')
    o, init = ctx.p.lookup_method(cls, '__init__')
    ctx.fn(init)
    bm = ctx.fn(ctx.p.func(META, 'build_meta_message'))
    c = spec_classes(ctx)['time_signature']
    o, chk = ctx.p.lookup_method(c, 'check')
    o, encf = ctx.p.lookup_method(c, 'encode')
    o, decf = ctx.p.lookup_method(c, 'decode')
    for f_ in (chk, encf, decf):
        if f_ is None:
            raise AnalysisError('time_signature check/encode/decode not found')
        ctx.fn(f_)
    bad_acc, bad_enc, bad_dec = [], [], []
    for e in range(256):
        d = 2 ** e
        holder = {}

        def thunk():
            obj = AObj(cls, {})
            holder['obj'] = obj
            return ai.call_function(init, [obj, 'time_signature'], {'denominator': d, 'numerator': 7})
        outs = ai.explore(thunk)
        if len(outs) != 1 or outs[0].kind != 'return':
            bad_acc.append(e)
            continue
        fn, bouts = _meta_bytes(ctx, ai, 'time_signature', {'numerator': 7, 'denominator': d, 'clocks_per_click': 24,
                                                             'notated_32nd_notes_per_beat': 8})
        if len(bouts) != 1 or bouts[0].kind != 'return' or not isinstance(bouts[0].value, AList) or \
                bouts[0].value.items[3:] != [7, e, 24, 8]:
            bad_enc.append(e)
        douts = ai.explore(lambda: ai.call_function(bm, [0x58, AList([7, e, 24, 8], 'list'), 0], {}))
        if len(douts) != 1 or douts[0].kind != 'return' or not isinstance(douts[0].value, AObj) or douts[0].value.attrs.get('denominator') != d:
            bad_dec.append(e)
    ctx.require(not bad_acc, 'R09.2', 'denominator.accepted', ctx.where(chk),
                f'{len(bad_acc)} of the 256 documented power-of-two denominators are rejected (2**{bad_acc[:6]}...): the power-of-two '
                'test is not integer exact', construct=f'{chk.qname}::denominator::accept')
    ctx.require(not bad_enc, 'R09.2', 'denominator.encoded', ctx.where(encf),
                f'denominators 2**{bad_enc[:6]} are not encoded as their exponent', construct=f'{encf.qname}::denominator::exponent')
    ctx.require(not bad_dec, 'R09.2', 'denominator.decoded', ctx.where(decf),
                f'exponents {bad_dec[:6]} do not decode to 2**e', construct=f'{decf.qname}::denominator::power')
    rejected_ok = True
    leaks = []
    for bad in (0, -4, 3, 6, 12, 24, 2 ** 100 + 1, 2 ** 255 + 2 ** 254, 2 ** 256, 2 ** 255 + 1, 1.5, '4'):
        outs = ai.explore(lambda: ai.call_function(init, [AObj(cls, {}), 'time_signature'], {'denominator': bad}))
        if not outs or not all(o_.kind == 'raise' and o_.exc in ('ValueError', 'TypeError') for o_ in outs):
            leaks.append(bad)
    ctx.require(not leaks, 'R09.2', 'denominator.rejected', ctx.where(chk), f'denominators {leaks[:5]} are outside the documented domain but accepted',
                construct=f'{chk.qname}::denominator::reject')
    # the other three attributes of time_signature: symbolic round trip
    a = {'numerator': smf.sym('numerator', 255), 'denominator': 8, 'clocks_per_click': smf.sym('cpc', 255),
         'notated_32nd_notes_per_beat': smf.sym('n32', 255)}
    fn, bouts = _meta_bytes(ctx, ai, 'time_signature', a)
    ok = len(bouts) == 1 and bouts[0].kind == 'return' and wire.items_equal(bouts[0].value.items[3:], [a['numerator'], 3, a['clocks_per_click'], a['notated_32nd_notes_per_beat']])
    ctx.require(ok, 'R09.1', 'bytes(time_signature).layout', ctx.where(encf), f'{bouts}', construct=f'{encf.qname}::layout')
    if ok:
        douts = ai.explore(lambda: ai.call_function(bm, [0x58, AList(list(bouts[0].value.items[3:]), 'list'), 0], {}))
        ok2 = len(douts) == 1 and douts[0].kind == 'return'
        why = f'{douts}'
        if ok2:
            ok2, why = smf.same_message(smf.Ev('meta', 'time_signature', a, 0), douts[0].value, ctx)
        ctx.require(ok2, 'R09.1', 'decode(time_signature)', ctx.where(decf), why, construct=f'{decf.qname}::identity')
    for q in ai.inlined:
        ctx.functions.add(q)


def r09_4(ctx):
    """MetaMessage.from_bytes on concrete payload lengths around the VLQ size boundaries."""
    ai = smf.make_interp(ctx)
    for q in ('mido/midifiles/meta.py::encode_variable_int',):
        ai.summaries.pop(q, None)
    cls = ctx.p.cls(META, 'MetaMessage')
    fb = cls.methods.get('from_bytes')
    if fb is None:
        raise AnalysisError('MetaMessage.from_bytes not found')
    ctx.fn(fb)
    w = ctx.where(fb)
    from ..fold import ClassRef
    n = 0
    for ln in (0, 1, 2, 127, 128, 129, 255, 16383, 16384):
        n += 1
        # reference encoding of an unknown meta event (type 0x60) with ln payload bytes
        payload = [(i * 7 + 3) % 256 for i in range(ln)]
        v = ln
        groups = []
        while True:
            groups.append(v & 0x7f)
            v >>= 7
            if not v:
                break
        vlq = [g | 0x80 for g in reversed(groups[1:])] + [groups[0]]
        msg_bytes = [0xff, 0x60] + vlq + payload
        for kind in ('list', 'tuple', 'bytes', 'bytearray') if ln in (1, 128, 129, 16384) else ('list',):
            holder = {}

            def thunk(kind=kind):
                arg = AList(list(msg_bytes), kind)
                holder['arg'] = arg
                return ai.call_function(fb, [ClassRef(cls), arg], {})
            outs = ai.explore(thunk)
            ok = len(outs) == 1 and outs[0].kind == 'return' and isinstance(outs[0].value, AObj) \
                and outs[0].value.cls is not None and outs[0].value.cls.name == 'UnknownMetaMessage' \
                and outs[0].value.attrs.get('type_byte') == 0x60 \
                and wire.value_equal(outs[0].value.attrs.get('data'), tuple(payload))
            ctx.require(ok, 'R09.4', f'from_bytes({kind}, payload {ln})', w,
                        f'a meta event with a {ln} byte payload (length prefix {vlq}) given as a {kind} is parsed as '
                        f'{str(outs)[:200]}', construct=f'{fb.qname}::length({len(vlq)}-byte prefix)')
            ctx.require(list(holder['arg'].items) == list(msg_bytes), 'R09.4', f'from_bytes({kind}, payload {ln}).argument', w,
                        'from_bytes changes the bytes it is given (the continuation bits of the length are cleared in the caller\'s buffer)',
                        construct=f'{fb.qname}::mutates-argument')
        # wrong length -> ValueError
        if ln in (1, 128):
            for delta in (-1, +1):
                bad = msg_bytes[:len(msg_bytes) + delta] if delta < 0 else msg_bytes + [0]
                outs = ai.explore(lambda: ai.call_function(fb, [ClassRef(cls), AList(list(bad), 'list')], {}))
                ctx.require(bool(outs) and all(o_.kind == 'raise' and o_.exc == 'ValueError' for o_ in outs), 'R09.4',
                            f'from_bytes(payload {ln}{delta:+d})', w, f'length mismatch must raise ValueError: {str(outs)[:200]}',
                            construct=f'{fb.qname}::mismatch')
    outs = ai.explore(lambda: ai.call_function(fb, [ClassRef(cls), AList([0x90, 1, 2], 'list')], {}))
    ctx.require(bool(outs) and all(o_.kind == 'raise' and o_.exc == 'ValueError' for o_ in outs), 'R09.4', 'from_bytes(not FF)', w,
                f'{outs}', construct=f'{fb.qname}::not-meta')
    # known type through from_bytes
    outs = ai.explore(lambda: ai.call_function(fb, [ClassRef(cls), AList([0xff, 0x51, 3, 1, 2, 3], 'list')], {}))
    ok = len(outs) == 1 and outs[0].kind == 'return' and isinstance(outs[0].value, AObj) and outs[0].value.attrs.get('tempo') == 0x010203
    ctx.require(ok, 'R09.4', 'from_bytes(set_tempo)', w, f'{outs}', construct=f'{fb.qname}::known-type')
    ctx.floor('R09.4', n, 9)
    for q in ai.inlined:
        ctx.functions.add(q)


def r09_5(ctx):
    """Checked construction and assignment."""
    ai = smf.make_interp(ctx)
    cls = ctx.p.cls(META, 'MetaMessage')
    o, init = ctx.p.lookup_method(cls, '__init__')
    o, sa = ctx.p.lookup_method(cls, '__setattr__')
    if sa is None or init is None:
        ctx.fail('R09.5', 'MetaMessage.__setattr__', f'{cls.module.relpath}:{cls.node.lineno} MetaMessage', 'no __setattr__/__init__',
                 construct=f'{cls.qname}::__setattr__')
        return
    ctx.fn(init)
    ctx.fn(sa)
    w = ctx.where(sa)
    n = 0
    for (name, attr), (lo, hi) in sorted(reference.META_DOMAINS.items()):
        if (name, attr) == ('time_signature', 'denominator'):
            continue
        defaults = {}
        for probe, expect_ok in ((lo, True), (hi, True), (lo - 1, False), (hi + 1, False), (1.0, False), ('1', False), (None, False)):
            n += 1
            for entry in ('init', 'setattr'):
                holder = {}

                def thunk():
                    if entry == 'init':
                        obj = AObj(cls, {})
                        holder['obj'] = obj
                        return ai.call_function(init, [obj, name], {attr: probe})
                    obj = AObj(cls, {})
                    ai.call_function(init, [obj, name], {})
                    obj.stores.clear()
                    holder['obj'] = obj
                    holder['before'] = dict(obj.attrs)
                    return ai.call_function(sa, [obj, attr, probe], {})
                outs = ai.explore(thunk)
                inst = f'{entry}({name}.{attr}={probe!r})'
                cons = f'{(init if entry == "init" else sa).qname}::{"accept" if expect_ok else "reject"}'
                if expect_ok:
                    ok = len(outs) == 1 and outs[0].kind == 'return' and holder['obj'].attrs.get(attr) == probe
                    ctx.require(ok, 'R09.5', inst, w, f'a documented value is not accepted/stored: {outs}', construct=cons)
                else:
                    ok = bool(outs) and all(o_.kind == 'raise' and o_.exc in ('ValueError', 'TypeError') for o_ in outs)
                    if ok and entry == 'setattr':
                        ok = holder['obj'].attrs == holder['before']
                    ctx.require(ok, 'R09.5', inst, w, f'a value outside the documented domain is not rejected (or the message was changed): {outs}',
                                construct=cons)
    ctx.floor('R09.5', n, 80)
    # unknown keyword / attribute
    outs = ai.explore(lambda: ai.call_function(init, [AObj(cls, {}), 'set_tempo'], {'no_such': 1}))
    ctx.require(bool(outs) and all(o_.kind == 'raise' and o_.exc in ('ValueError', 'TypeError', 'AttributeError') for o_ in outs), 'R09.5',
                'init(unknown keyword)', ctx.where(init), f'{outs}', construct=f'{init.qname}::unknown')
    for bad in ('type', 'no_such'):
        holder = {}

        def thunk():
            obj = AObj(cls, {})
            ai.call_function(init, [obj, 'set_tempo'], {})
            holder['obj'] = obj
            holder['before'] = dict(obj.attrs)
            return ai.call_function(sa, [obj, bad, 5], {})
        outs = ai.explore(thunk)
        ok = bool(outs) and all(o_.kind == 'raise' and o_.exc == 'AttributeError' for o_ in outs) and holder['obj'].attrs == holder['before']
        ctx.require(ok, 'R09.5', f'setattr({bad})', w, f'{outs}', construct=f'{sa.qname}::reject({bad})')
    # time is checked
    for probe, good in ((0, True), (2.5, True), ('x', False), (None, False)):
        outs = ai.explore(lambda: ai.call_function(init, [AObj(cls, {}), 'set_tempo'], {'time': probe}))
        ok = ([o_.kind for o_ in outs] == ['return']) if good else (bool(outs) and all(o_.kind == 'raise' and o_.exc == 'TypeError' for o_ in outs))
        ctx.require(ok, 'R09.5', f'init(time={probe!r})', ctx.where(init), f'{outs}', construct=f'{init.qname}::time')
    # text attributes
    for probe, good in ((StrSym('T'), True), ('', True), (5, False), (None, False), (b'x', False)):
        outs = ai.explore(lambda: ai.call_function(init, [AObj(cls, {}), 'track_name'], {'name': probe}))
        ok = ([o_.kind for o_ in outs] == ['return']) if good else (bool(outs) and all(o_.kind == 'raise' and o_.exc in ('TypeError', 'ValueError') for o_ in outs))
        ctx.require(ok, 'R09.5', f'init(track_name.name={probe!r})', ctx.where(init), f'{outs}', construct=f'{init.qname}::text')
    for q in ai.inlined:
        ctx.functions.add(q)


def r09_6(ctx):
    """read_bytes: only sizes above 1 000 000 are refused; it reads exactly `size` bytes."""
    rb = ctx.fn(ctx.p.func(smf.MF, 'read_bytes'))
    w = ctx.where(rb)
    mx = ctx.f.table(smf.MF, 'MAX_MESSAGE_LENGTH')
    ctx.require(mx == reference.MAX_MESSAGE_LENGTH, 'R09.6', 'MAX_MESSAGE_LENGTH', w, f'limit is {mx}, documented 1000000',
                construct=f'{rb.module.relpath}::MAX_MESSAGE_LENGTH')
    try:
        # (tests on the file - which kind it is, whether it ran out - go either way; running out of bytes is not a refusal
        # of the size)
        r = check_domain(ctx.p, ctx.f, rb, rb.params()[1], {}, free_guards=True)
        ctx.paths += r.paths
        refused = IntSet.empty()
        for exc_, set_ in r.rejected.items():
            if exc_ != 'EOFError':
                refused = refused.union(set_)
        ok = refused == IntSet.range(reference.MAX_MESSAGE_LENGTH + 1, float('inf'))
        why = f'read_bytes refuses sizes {refused}'
    except Undecidable as e:
        ok, why = False, str(e)
    ctx.require(ok, 'R09.6', 'read_bytes.limit', w, why + ' (every size up to 1 000 000 must be readable)', construct=f'{rb.qname}::limit')
    # read_bytes un-summarised: exactly `size` bytes, in order, as a list of integers; EOFError when the stream ends first
    ai0 = smf.make_interp(ctx)
    ai0.summaries.pop('mido/midifiles/midifiles.py::read_bytes', None)
    bs = [smf.sym(f'r{i}', 255) for i in range(5)]
    for size in (0, 1, 3, 5):
        holder = {}

        def thunk_rb():
            f_ = AFile(stream=list(bs), name='in')
            holder['f'] = f_
            return ai0.call_function(rb, [f_, size], {})
        outs = ai0.explore(thunk_rb)
        ok = len(outs) == 1 and outs[0].kind == 'return'
        if ok:
            v = outs[0].value
            items = list(v.items) if isinstance(v, AList) else list(v) if isinstance(v, list) else None
            ok = items is not None and len(items) == size and all(wire.value_equal(a, b) for a, b in zip(items, bs)) and holder['f'].pos == size
        ctx.require(ok, 'R09.6', f'read_bytes(size={size})', w, f'read_bytes(file of 5 bytes, {size}) gives {outs} and leaves the file at {holder["f"].pos}',
                    construct=f'{rb.qname}::shape')
    # ... also for payloads longer than any block a bulk reader may use: exactly `size` items, the rest stays in the file
    for size in (4095, 4096, 4097, 5000, 8192, 8193):
        big = [i % 251 for i in range(size + 3)]
        holder = {}

        def thunk_big():
            f_ = AFile(stream=list(big), name='in')
            holder['f'] = f_
            return ai0.call_function(rb, [f_, size], {})
        ai0.steps = 0
        outs = ai0.explore(thunk_big)
        ok = len(outs) == 1 and outs[0].kind == 'return'
        if ok:
            v = outs[0].value
            items = list(v.items) if isinstance(v, AList) else list(v) if isinstance(v, (list, bytes, bytearray)) else None
            ok = items is not None and items == big[:size] and holder['f'].pos == size
        ctx.require(ok, 'R09.6', f'read_bytes(size={size})', w,
                    f'read_bytes(file of {size + 3} bytes, {size}) returns {len(items) if ok is False and outs and outs[0].kind == "return" and items is not None else "?"} '
                    f'items / leaves the file at {holder["f"].pos}: {str(outs)[:160]}', construct=f'{rb.qname}::shape')
    outs = ai0.explore(lambda: ai0.call_function(rb, [AFile(stream=list(bs[:2]), name='in'), 3], {}))
    ctx.require(bool(outs) and all(o_.kind == 'raise' and o_.exc == 'EOFError' for o_ in outs), 'R09.6', 'read_bytes(past the end)', w,
                f'reading 3 bytes from a 2 byte file gives {outs}; expected EOFError', construct=f'{rb.qname}::eof')
    # read_byte: one byte, EOFError at end
    ai = smf.make_interp(ctx)
    rby = ctx.fn(ctx.p.func(smf.MF, 'read_byte'))
    holder = {}

    def thunk():
        f = AFile(stream=[smf.sym('b0', 255), 7], name='in')
        holder['f'] = f
        return ai.call_function(rby, [f], {})
    outs = ai.explore(thunk)
    ok = len(outs) == 1 and outs[0].kind == 'return' and wire.value_equal(outs[0].value, smf.sym('b0', 255)) and holder['f'].pos == 1
    ctx.require(ok, 'R09.6', 'read_byte', ctx.where(rby), f'read_byte returns {outs} after {holder["f"].pos} bytes', construct=f'{rby.qname}::one-byte')
    outs = ai.explore(lambda: ai.call_function(rby, [AFile(stream=[])], {}))
    ctx.require(bool(outs) and all(o_.kind == 'raise' and o_.exc == 'EOFError' for o_ in outs), 'R09.6', 'read_byte(eof)', ctx.where(rby),
                f'{outs}', construct=f'{rby.qname}::eof')


def r09_vlq(ctx):
    """The length prefix is a correct variable-length quantity: the VLQ functions themselves (shared with C08 R08.1)."""
    from . import c08
    before = len(ctx.obligations)
    c08.r08_vlq(ctx)
    for o in ctx.obligations[before:]:
        o.rule = 'R09.4'


def r09_codec(ctx):
    """Text payloads go through encode_string/decode_string: their bodies (shared with C17 R17.4)."""
    from . import c17
    ctx.borrow(c17.r17_4, 'R09.7')


def r09_default_charset(ctx):
    """A text meta message encoded by bytes() and a default MidiFile reading it agree on the charset: the process-wide default
    and the default of the charset argument are the same latin1 (shared with C17 R17.2)."""
    from . import c17
    ctx.borrow(c17.r17_2, 'R09.8')


def r09_byte_payloads(ctx):
    """The payload of sequencer_specific and of unknown meta events is made of bytes, 0..255 - not of MIDI data bytes: a
    manufacturer's data with the high bit set is accepted by the constructor, by assignment and by the decoder, and comes back as
    it was.  (That items outside 0..255 are not refused is the known finding D6/D7.)"""
    from ..fold import ClassRef
    ai = smf.make_interp(ctx)
    ai.summaries.pop('mido/messages/checks.py::check_data', None)        # (if a spec borrows the 7-bit check it is the real one)
    cls = ctx.p.cls(META, 'MetaMessage')
    ucls = ctx.p.cls(META, 'UnknownMetaMessage')
    bm = ctx.fn(ctx.p.func(META, 'build_meta_message'))
    w = ctx.where(bm)
    n = 0
    for payload in ((0x80,), (0, 0x7f, 0x80, 0xff), (0xff,) * 3):
        n += 1

        def thunk():
            m1 = ai.apply(ClassRef(cls), ['sequencer_specific'], {'data': AList(list(payload), 'tuple')}, None)
            m2 = ai.call_function(bm, [0x7f, AList(list(payload), 'list'), 0], {})
            m3 = ai.call_function(bm, [0x60, AList(list(payload), 'list'), 0], {})
            b1 = ai.call_function(ctx.p.lookup_method(cls, 'bytes')[1], [m1], {})
            return [list(ai.iterate(x.attrs.get('data'), None)) if isinstance(x, AObj) else x for x in (m1, m2, m3)], list(ai.iterate(b1, None))
        outs = ai.explore(thunk)
        ok = len(outs) == 1 and outs[0].kind == 'return'
        if ok:
            datas, enc = outs[0].value
            ok = all(d == list(payload) for d in datas) and enc[3:] == list(payload)
        ctx.require(ok, 'R09.10', f'payload {list(payload)}', w,
                    f'a sequencer_specific / unknown meta payload {list(payload)} given to the constructor and to the decoder, then encoded: {str(outs)[:300]}; '
                    'expected the same bytes everywhere', construct=f'{bm.qname}::byte-payload')
    ctx.floor('R09.10', n, 3)
    for q in ai.inlined:
        ctx.functions.add(q)


def r09_after_refusal(ctx):
    """The domains are enforced on every message, whatever happened before in the process: after a decode that was refused (a key
    signature that does not exist, a payload cut short), after a constructor call that was refused, and after any number of good
    decodes, an out-of-domain value given to the constructor or assigned is refused as it is on a fresh import - the checks do
    not hang on module state that one way out of a call forgets to restore."""
    from ..absint import AbsRaise
    from ..fold import ClassRef
    ai = smf.make_interp(ctx)
    cls = ctx.p.cls(META, 'MetaMessage')
    bmm = ctx.fn(ctx.p.func(META, 'build_meta_message'))
    w = ctx.where(bmm)
    before = {
        'a refused key signature (FF 59 02 08 00)': lambda: ai.call_function(bmm, [0x59, AList([8, 0], 'list'), 0], {}),
        'a channel prefix cut short (FF 20 00)': lambda: ai.call_function(bmm, [0x20, AList([], 'list'), 0], {}),
        'a refused constructor call (tempo=-1)': lambda: ai.apply(ClassRef(cls), ['set_tempo'], {'tempo': -1}, None),
        'a good decode (set_tempo)': lambda: ai.call_function(bmm, [0x51, AList([1, 2, 3], 'list'), 0], {}),
        'nothing': lambda: None,
    }
    probes = [('set_tempo', {'tempo': 2 ** 24}), ('set_tempo', {'tempo': -1}), ('channel_prefix', {'channel': 256}), ('sequence_number', {'number': 65536}),
              ('time_signature', {'denominator': 3}), ('key_signature', {'key': 'H'}), ('text', {'text': None})]
    n = 0
    for blabel, first in before.items():
        for type_, kw in probes:
            n += 1
            marks = []

            def thunk():
                try:
                    first()
                    marks.append('returned')
                except AbsRaise as e:
                    marks.append(e.exc)
                return ai.apply(ClassRef(cls), [type_], dict(kw), None)
            outs = ai.explore(thunk)
            ok = bool(outs) and all(o.kind == 'raise' and o.exc in ('ValueError', 'TypeError', 'KeySignatureError') for o in outs)
            ctx.require(ok, 'R09.9', f'MetaMessage({type_!r}, {", ".join(f"{k}={v!r}" for k, v in kw.items())}) after {blabel}', w,
                        f'after {blabel} (which {"was refused" if marks and marks[-1] != "returned" else "returned"}), the out-of-domain value is '
                        f'{"accepted" if any(o.kind == "return" for o in outs) else "not refused cleanly"}: {str(outs)[:200]}',
                        construct=f'{bmm.qname}::checks-depend-on-history')
    ctx.floor('R09.9', n, 35)
    for q in ai.inlined:
        ctx.functions.add(q)


def r09_raw_stream(ctx):
    """Reading a meta event from a track does not depend on how the stream hands out its bytes.  read() on a raw (unbuffered)
    stream, a pipe or a socket file may return fewer bytes than asked for without being at the end; the event reader, run on a
    stream double that never returns more than two bytes per call, must give the same message as on a buffered file (a payload
    fetched with one read(length) and declared truncated when it comes back short does not)."""
    fn = ctx.fn(ctx.p.func(smf.MF, 'read_meta_message'))
    w = ctx.where(fn)
    for label, stream, want in (('unknown meta 0x60', [0x60, 4, 9, 8, 7, 6], ('unknown_meta', 'data', (9, 8, 7, 6))),
                                ('set_tempo', [0x51, 3, 0x07, 0xa1, 0x20], ('set_tempo', 'tempo', 500000)),
                                ('sequencer_specific', [0x7f, 5, 1, 2, 3, 4, 5], ('sequencer_specific', 'data', (1, 2, 3, 4, 5)))):
        res = {}
        for mode in (None, 2):
            ai = smf.make_interp(ctx)
            ai.summaries.pop('mido/midifiles/midifiles.py::read_bytes', None)

            def thunk(mode=mode, ai=ai):
                f_ = AFile(stream=list(stream), name='in')
                f_.max_per_read = mode
                m_ = ai.call_function(fn, [f_, 0], {})
                v = m_.attrs.get(want[1]) if isinstance(m_, AObj) else None
                if isinstance(v, AList):
                    v = tuple(v.items)
                elif isinstance(v, list):
                    v = tuple(v)
                return (m_.attrs.get('type') if isinstance(m_, AObj) else None, v, f_.pos)
            outs = ai.explore(thunk)
            res[mode] = [o.value if o.kind == 'return' else f'raise {o.exc}' for o in outs]
        exp = [(want[0], want[2], len(stream))]
        ctx.require(res[None] == exp and res[2] == exp, 'R09.11', f'read_meta_message({label}) from a stream that returns at most 2 bytes per read()', w,
                    f'buffered stream: {res[None]}; at most two bytes per read(): {res[2]}; expected {exp} both times',
                    construct=f'{fn.qname}::short-reads')


RULES = [('R09.11', r09_raw_stream), ('R09.10', r09_byte_payloads), ('R09.9', r09_after_refusal), ('R09.8', r09_default_charset), ('R09-vlq', r09_vlq), ('R09.7', r09_codec), ('R09-registry', r09_registry), ('R09.3', r09_3), ('R09.1', r09_1), ('R09-tables', r09_tables), ('R09.2', r09_2),
         ('R09.4', r09_4), ('R09.5', r09_5), ('R09.6', r09_6)]
