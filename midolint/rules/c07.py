"""C07 - MIDI file save then load preserves every track."""
from __future__ import annotations

import ast

from .. import astq, codec, reference, smf, wire
from ..absint import AList, AObj, Opaque, SeqVar
from ..bits import AV
from ..model import AnalysisError, unparse
from ..fold import ClassRef
from ..wire import AFile, Field, StrSym, VLQ

LEVEL = 'other'
EXPLANATION = (
    'Abstract save->load of symbolic tracks: write_track (with fix_end_of_track, Message.bytes, MetaMessage.bytes '
    'inlined) is abstractly interpreted on ~60 small tracks whose messages carry symbolic attribute values and symbolic '
    'delta times (every channel / system common type, runs that trigger and break running status across other '
    'channels, meta, sysex and system common events, empty and non-empty sysex, every meta type incl. unknown ones, '
    'end_of_track missing / repeated / in the middle); the emitted wire items (bytes as bit layouts over the attribute '
    'symbols, VLQ(value) markers, struct fields, symbolic runs) are served to an abstract file from which read_track '
    '(read_message, read_sysex, read_meta_message, build_meta_message, the decoders) is interpreted; obligations: one '
    'outcome, chunk length field = number of bytes that follow, the reader consumes exactly the track, and every '
    'message read equals the one written in class, every attribute and delta time, with exactly one trailing '
    'end_of_track carrying the folded delta.  Whole-file level: MidiFile._save/_load on a symbolic header, save() '
    'rejecting type 0 with != 1 track, write_track rejecting real-time messages, negative and non-integral times '
    'before anything is written, and REALTIME_TYPES = the status >= 0xF8 rows of SPECS.  Arbitrary message mixes are covered '
    'inductively (R07.6/R07.7): ONE iteration of write_track\'s loop is interpreted for every event kind x writer running '
    'status (none / equal / different) and must emit the reference bytes and the right running status; ONE iteration of '
    'read_track\'s loop is interpreted on those bytes for every reader state consistent with the invariant "writer keeps '
    'running status S => reader remembers S" and must return the event and re-establish the invariant.  Equality of arbitrary whole '
    'files and the load-save-load fixed point on mutated bytes are values, not shape, and are not decided.')
TRUSTED = ['midolint abstract interpreter, bit layout and wire domains', 'summaries: encode_variable_int/read_variable_int as VLQ(value) '
           '(bodies checked in C08 R08.1), read_bytes (C09 R09.6), struct.pack/unpack field model, encode/decode_string (C17)']
ASSUMPTIONS = ['messages in tracks are valid (C03)', 'file objects behave like io.BytesIO']

RULES_MAP = {'write': 'R07.2', 'conform': 'R07.3', 'size': 'R07.3', 'read': 'R07.1', 'equal': 'R07.1'}


def r07_scenarios(ctx):
    ai = smf.make_interp(ctx)
    sc = dict(smf.standard_scenarios())
    sc.update(smf.meta_scenarios())
    n = 0
    for name, evs in sc.items():
        smf.check_scenario(ctx, ai, name, evs, RULES_MAP)
        n += 1
    ctx.floor('R07-scenarios', n, 40)
    ctx.extra['scenarios'] = sorted(sc)


def r07_5(ctx):
    ai = smf.make_interp(ctx)
    m = dict(RULES_MAP)
    m.update({'conform': 'R07.5', 'equal': 'R07.5', 'write': 'R07.5'})
    n = 0
    for name, evs in smf.eot_scenarios().items():
        smf.check_scenario(ctx, ai, name, evs, m)
        n += 1
    ctx.floor('R07.5', n, 6)
    # fix_end_of_track does not modify its input messages (copies when the time changes)
    fe = ctx.fn(ctx.p.func(wire.TR_MOD, 'fix_end_of_track'))
    holder = {}

    def thunk():
        evs = smf.eot_scenarios()['eot:middle']
        msgs = [e.build(ai, ctx) for e in evs]
        holder['msgs'] = msgs
        holder['before'] = [dict(x.attrs) for x in msgs]
        return ai.call_function(fe, [AList(msgs, 'MidiTrack')], {})
    outs = ai.explore(thunk)
    ok = len(outs) == 1 and outs[0].kind == 'return' and all(
        not x.stores and x.attrs == b for x, b in zip(holder['msgs'], holder['before']))
    ctx.require(ok, 'R07.5', 'fix_end_of_track.pure', ctx.where(fe), 'fix_end_of_track writes to the messages of the track it is given',
                construct=f'{fe.qname}::pure')


def r07_4(ctx):
    """What may not be stored."""
    ai = smf.make_interp(ctx)
    m = dict(RULES_MAP)
    m['write'] = 'R07.4'
    n = 0
    for t in smf.REALTIME_TYPES:
        smf.check_scenario(ctx, ai, f'realtime:{t}', [smf.Ev('message', t, {}, 0)], m, expect_write_error='ValueError')
        smf.check_scenario(ctx, ai, f'realtime-after-note:{t}',
                           [smf.Ev('message', 'note_on', smf.msg_attrs('note_on', '1'), 0), smf.Ev('message', t, {}, 0)], m,
                           expect_write_error='ValueError')
        n += 2
    for bad, label in ((-1, 'negative'), (1.5, 'float'), (smf.sym('tneg', 100, -101), 'negative-symbolic')):
        smf.check_scenario(ctx, ai, f'time:{label}', [smf.Ev('message', 'note_on', smf.msg_attrs('note_on', '1'), bad)], m,
                           expect_write_error='ValueError')
        smf.check_scenario(ctx, ai, f'time:{label}-meta', [smf.Ev('meta', 'text', {'text': StrSym('T')}, bad)], m,
                           expect_write_error='ValueError')
        smf.check_scenario(ctx, ai, f'time:{label}-second',
                           [smf.Ev('message', 'note_on', smf.msg_attrs('note_on', '0'), 0),
                            smf.Ev('message', 'sysex', {'data': AList([], 'tuple')}, bad)], m, expect_write_error='ValueError')
        n += 3
    # a negative (or non-integer) time on an end_of_track in the middle of a track must not be absorbed into the next delta
    for bad, label in ((-3, 'negative'), (1.5, 'float'), (-1.5, 'negative float')):
        for pos, evs in (('middle', [smf.Ev('message', 'note_on', smf.msg_attrs('note_on', '1'), 10), smf.Ev('meta', 'end_of_track', {}, bad),
                                     smf.Ev('message', 'note_off', smf.msg_attrs('note_off', '2'), 3)]),
                         ('first', [smf.Ev('meta', 'end_of_track', {}, bad), smf.Ev('message', 'note_on', smf.msg_attrs('note_on', '1'), 5)]),
                         ('before-the-last', [smf.Ev('message', 'note_on', smf.msg_attrs('note_on', '1'), 1), smf.Ev('meta', 'end_of_track', {}, bad),
                                              smf.Ev('meta', 'end_of_track', {}, 7)])):
            smf.check_scenario(ctx, ai, f'time:{label}-end_of_track-{pos}', evs, m, expect_write_error='ValueError')
            n += 1
    # ... and the other way round: a negative (or non-integer) time on the message *behind* an end_of_track in the middle,
    # which the delta carried over from the removed end_of_track would make look valid
    for bad, label in ((-3, 'negative'), (2.5, 'float'), (-10, 'negative, cancels the carried delta')):
        for pos, evs in (('after-eot', [smf.Ev('message', 'note_on', smf.msg_attrs('note_on', '1'), 0), smf.Ev('meta', 'end_of_track', {}, 10),
                                        smf.Ev('message', 'note_off', smf.msg_attrs('note_off', '2'), bad)]),
                         ('after-two-eots', [smf.Ev('meta', 'end_of_track', {}, 6), smf.Ev('meta', 'end_of_track', {}, 4),
                                             smf.Ev('meta', 'text', {'text': StrSym('T')}, bad)]),
                         ('last-eot-after-eot', [smf.Ev('message', 'note_on', smf.msg_attrs('note_on', '1'), 1), smf.Ev('meta', 'end_of_track', {}, 20),
                                                 smf.Ev('meta', 'end_of_track', {}, bad)])):
            smf.check_scenario(ctx, ai, f'time:{label}-{pos}', evs, m, expect_write_error='ValueError')
            n += 1
    ctx.floor('R07.4', n, 39)
    # table agreement
    rt = ctx.f.table(codec.SPECS_MOD, 'REALTIME_TYPES')
    for m_, name_, st_ in astq.one_shot_globals(ctx.p):
        if name_ == 'REALTIME_TYPES':
            ctx.fail('R07.4', 'REALTIME_TYPES.container', f'{m_.relpath}:{st_.lineno} REALTIME_TYPES',
                     'REALTIME_TYPES is a one-shot iterator: the first membership test uses it up and save() stops refusing real-time messages',
                     construct=f'{m_.relpath}::REALTIME_TYPES::one-shot')
    S = codec.specs(ctx)
    want = {row['type'] for row in S if row['status_byte'] >= 0xf8}
    mm = ctx.p.module(codec.SPECS_MOD)
    ctx.require(set(rt) == want == reference.REALTIME_TYPE_NAMES, 'R07.4', 'REALTIME_TYPES', f'{mm.relpath}:1 REALTIME_TYPES',
                f'REALTIME_TYPES is {sorted(rt)}; the real-time rows of SPECS (status >= 0xF8) are {sorted(want)}',
                construct=f'{mm.relpath}::REALTIME_TYPES')


def _midifile_obj(ctx, type_, tracks, ticks):
    cls = ctx.p.cls(smf.MF, 'MidiFile')
    return AObj(cls, {'type': type_, 'tracks': tracks, 'ticks_per_beat': ticks, 'charset': 'latin1', 'debug': False,
                      'clip': False, 'filename': None}, name='midifile')


def r07_file(ctx):
    """Header and whole-file round trip; save() guards."""
    ai = smf.make_interp(ctx)
    cls = ctx.p.cls(smf.MF, 'MidiFile')
    o, save = ctx.p.lookup_method(cls, 'save')
    o, _save = ctx.p.lookup_method(cls, '_save')
    o, _load = ctx.p.lookup_method(cls, '_load')
    for f_ in (save, _save, _load):
        if f_ is None:
            raise AnalysisError('MidiFile.save/_save/_load not found')
        ctx.fn(f_)
    w = ctx.where(save)
    ev1 = [smf.Ev('message', 'note_on', smf.msg_attrs('note_on', '1'), smf.tsym('t1'))]
    ev2 = [smf.Ev('meta', 'set_tempo', {'tempo': smf.sym('tempo', 0xffffff)}, smf.tsym('t2'))]

    def run_save(type_, ntracks, by_name=False):
        holder = {}

        def thunk():
            out = AFile(name='out')
            tracks = AList([AList([e.build(ai, ctx) for e in evs], 'MidiTrack') for evs in [ev1, ev2][:ntracks]], 'list')
            mf = _midifile_obj(ctx, type_, tracks, smf.sym('tpb', 32766, 1))
            holder['out'] = out
            if by_name:
                ai.call_function(save, [mf], {'filename': 'out.mid'})
            else:
                ai.call_function(save, [mf], {'file': out})
            return out
        if by_name:
            saved_open = ai.builtin_summaries.get('open')
            ai.builtin_summaries['open'] = lambda i_, a_, k_, n_: holder['out']
        try:
            return ai.explore(thunk), holder
        finally:
            if by_name:
                if saved_open is None:
                    ai.builtin_summaries.pop('open', None)
                else:
                    ai.builtin_summaries['open'] = saved_open
    # type 0 with two tracks / no track is rejected before anything is written - whichever way the destination is named
    for nt in (0, 2):
        for by_name in (False, True):
            outs, h = run_save(0, nt, by_name)
            how = 'filename=' if by_name else 'file='
            ok = bool(outs) and all(o_.kind == 'raise' and o_.exc == 'ValueError' for o_ in outs) and not h['out'].written
            ctx.require(ok, 'R07.4', f'save({how}, type 0, {nt} tracks)', w,
                        f'a type 0 file with {nt} tracks saved with {how}... is not rejected with ValueError before writing: {outs}',
                        construct=f'{save.qname}::type0({nt})')
    for type_, nt in ((0, 1), (1, 2), (2, 2), (1, 0)):
        outs, h = run_save(type_, nt)
        inst = f'save(type {type_}, {nt} tracks)'
        if len(outs) != 1 or outs[0].kind != 'return':
            ctx.fail('R07.3', inst, w, f'save outcomes {outs}', construct=f'{save.qname}::save({type_},{nt})')
            continue
        written = outs[0].value.written
        hdr = written[:5]
        ok = len(hdr) == 5 and all(isinstance(x, Field) for x in hdr) and hdr[0].value == b'MThd' and hdr[1].code == 'L' \
            and hdr[1].value == 6 and [x.code for x in hdr[2:5]] == ['h', 'h', 'h'] and hdr[2].value == type_ and hdr[3].value == nt \
            and isinstance(hdr[4].value, AV) and all(x.order == '>' for x in hdr[1:])
        ctx.require(ok, 'R07.3', f'{inst}.header', w,
                    f'header is {smf.describe(hdr)}; SMF: MThd, length 6, then format, ntrks, division as big endian 16 bit',
                    construct=f'{_save.qname}::header')
        ntrk = sum(1 for x in written if isinstance(x, Field) and x.value == b'MTrk')
        ctx.require(ntrk == nt, 'R07.3', f'{inst}.tracks', w, f'{ntrk} track chunks written for {nt} tracks',
                    construct=f'{_save.qname}::track-count')
        # load it back
        holder = {}

        def lthunk():
            inf = AFile(stream=list(written), name='in')
            mf = _midifile_obj(ctx, 1, AList([], 'list'), 480)
            holder['mf'] = mf
            holder['inf'] = inf
            ai.call_function(_load, [mf, inf], {})
            return mf
        louts = ai.explore(lthunk)
        wl = ctx.where(_load)
        if len(louts) != 1 or louts[0].kind != 'return':
            ctx.fail('R07.1', f'{inst}.load', wl, f'loading what was saved: {louts}', construct=f'{_load.qname}::load({type_},{nt})')
            continue
        mf, inf = holder['mf'], holder['inf']
        ctx.require(mf.attrs.get('type') == type_ and wire.value_equal(mf.attrs.get('ticks_per_beat'), smf.sym('tpb', 32766, 1)),
                    'R07.1', f'{inst}.header-back', wl,
                    f'type/ticks_per_beat come back as {mf.attrs.get("type")!r}/{mf.attrs.get("ticks_per_beat")!r}'
                    + (f' ({ai.wire_notes})' if ai.wire_notes else ''), construct=f'{_load.qname}::header')
        tr = mf.attrs.get('tracks')
        ctx.require(isinstance(tr, AList) and len(tr.items) == nt and inf.pos == len(inf.stream) and not inf.bad, 'R07.1',
                    f'{inst}.tracks-back', wl, f'{len(tr.items) if isinstance(tr, AList) else tr!r} tracks loaded, {nt} saved; '
                    f'{inf.bad}', construct=f'{_load.qname}::tracks')
        if isinstance(tr, AList) and len(tr.items) == nt:
            for i, (evs, t_) in enumerate(zip([ev1, ev2], tr.items)):
                want = smf.fold_eot(evs)
                items = t_.items if isinstance(t_, AList) else []
                ok = len(items) == len(want) and all(smf.same_message(e, o_, ctx)[0] for e, o_ in zip(want, items))
                ctx.require(ok, 'R07.1', f'{inst}.track{i}', wl, f'track {i} comes back as {items!r}', construct=f'{_load.qname}::track-content')
    for q in ai.inlined:
        ctx.functions.add(q)


def r07_1_time(ctx):
    """The delta time reaches every message constructed by the reader (all return paths)."""
    from ..paths import enumerate_paths
    n = 0
    for modname, fname, pname in ((smf.MF, 'read_meta_message', 'delta'), (smf.MF, 'read_sysex', 'delta'),
                                  (smf.MF, 'read_message', 'delta'), (wire.META_MOD, 'build_meta_message', 'delta')):
        fn = ctx.fn(ctx.p.func(modname, fname))
        if pname not in fn.params():
            ctx.fail('R07.1', f'{fname}.delta-param', ctx.where(fn), f'{fname} has no {pname} parameter', construct=f'{fn.qname}::param')
            continue
        paths = enumerate_paths(fn.node)
        ctx.paths += len(paths)
        for p in paths:
            if p.status != 'return':
                continue
            ex = p.exit_node()
            n += 1
            # the returned expression (or the local it names) must be built from an expression using the parameter
            used = _uses_param_on_path(p, ex, pname)
            ctx.require(used, 'R07.1', f'{fname}.return@{ex.lineno}', ctx.where(fn, ex),
                        f'a return path of {fname} builds its message without the delta time ({unparse(ex)[:60]})',
                        construct=f'{fn.qname}::return({unparse(ex.value)[:40] if ex.value is not None else None})')
    ctx.floor('R07.1-returns', n, 5)


def _uses_param_on_path(path, ret, pname):
    if ret.value is None:
        return False
    names = astq.names_in(ret.value)
    if pname in names:
        return True
    # follow local definitions on this path
    defs = {}
    for e in path.events:
        if e.kind == 'stmt' and isinstance(e.node, ast.Assign):
            for t in e.node.targets:
                if isinstance(t, ast.Name):
                    defs[t.id] = e.node.value
    seen = set()
    todo = list(names)
    while todo:
        nme = todo.pop()
        if nme in seen:
            continue
        seen.add(nme)
        if nme == pname:
            return True
        if nme in defs:
            todo.extend(astq.names_in(defs[nme]))
    return False


def r07_induction(ctx):
    """All message mixes: one-step agreement of writer and reader under the running-status invariant."""
    ai = smf.make_interp(ctx)
    smf.inductive_agreement(ctx, ai, 'R07.6', 'R07.7')


def r07_vlq(ctx):
    """Delta times and lengths are written and read by the VLQ functions: their bodies (shared with C08 R08.1)."""
    from . import c08
    ctx.borrow(c08.r08_vlq, 'R07.8')


def r07_codec(ctx):
    """Text payloads are written and read by encode_string/decode_string: their bodies (shared with C17 R17.4) - a cache keyed
    without the charset, an error handler or post-processing there breaks the round trip of text meta messages."""
    from . import c17
    ctx.borrow(c17.r17_4, 'R07.9')


def r07_fixed_point(ctx):
    """load - save - load: what the reader accepts the writer must be able to store (sibling agreement of the two acceptance
    sets, decided on the shapes where they could differ: status bytes the writer refuses, header combinations save() refuses)."""
    ai = smf.make_interp(ctx)
    rt_fn = ctx.fn(ctx.p.func(smf.MF, 'read_track'))
    wt = ctx.fn(ctx.p.func(smf.MF, 'write_track'))
    cls = ctx.p.cls(smf.MF, 'MidiFile')
    o, load = ctx.p.lookup_method(cls, '_load')
    o, save = ctx.p.lookup_method(cls, 'save')
    w = ctx.where(rt_fn)
    n = 0
    t = smf.tsym('t')
    for status, name in ((0xf8, 'clock'), (0xfa, 'start'), (0xfb, 'continue'), (0xfc, 'stop'), (0xfe, 'active_sensing')):
        body = [VLQ(t), status, VLQ(0), 0xff, 0x2f, VLQ(0)]
        stream = [Field('4s', b'MTrk'), Field('L', wire.size_of(body))] + body
        holder = {}

        def thunk():
            tr = ai.call_function(rt_fn, [AFile(stream=list(stream), name='in')], {})
            holder['loaded'] = tr
            out = AFile(name='out')
            ai.call_function(wt, [out, tr], {})
            return out
        outs = ai.explore(thunk)
        n += 1
        loaded = 'loaded' in holder
        ok = not loaded or (len(outs) == 1 and outs[0].kind == 'return')
        ctx.require(ok, 'R07.10', f'load-save(track holding the status byte {status:#04x})', w,
                    f'a track with the byte {status:#04x} ({name}) loads as {holder.get("loaded")!r} but saving it gives {outs}: '
                    'not a fixed point of load-save-load (the reader accepts a real-time status the writer refuses)',
                    construct=f'{rt_fn.qname}::accepts-realtime-status')
        holder.clear()
    # header: type 0 with a track count other than 1
    for ntracks in (0, 2):
        trk = [VLQ(0), 0xff, 0x2f, VLQ(0)]
        stream = [Field('4s', b'MThd'), Field('L', 6), Field('h', 0), Field('h', ntracks), Field('h', 480)]
        for _ in range(ntracks):
            stream += [Field('4s', b'MTrk'), Field('L', wire.size_of(trk))] + trk
        holder = {}

        def thunk2():
            mf = ai.apply(ClassRef(cls), [], {'file': AFile(stream=list(stream), name='in')}, None)
            holder['mf'] = mf
            out = AFile(name='out')
            ai.call_function(save, [mf], {'file': out})
            return out
        outs = ai.explore(thunk2)
        n += 1
        loaded = 'mf' in holder
        ok = not loaded or (len(outs) == 1 and outs[0].kind == 'return')
        ctx.require(ok, 'R07.10', f'load-save(type 0 file with {ntracks} tracks)', ctx.where(load),
                    f'a type 0 file with {ntracks} tracks loads, but saving it gives {outs}: not a fixed point of load-save-load',
                    construct=f'{load.qname}::accepts-type0-track-count')
    ctx.floor('R07.10', n, 7)
    for q in ai.inlined:
        ctx.functions.add(q)


def r07_clip(ctx):
    """Loading with clip=True is the same round trip for files whose data bytes are all below 128 (everything save() writes):
    the clip option only touches bytes above 127 (shared with C08 R08.5)."""
    from . import c08
    ctx.borrow(c08.r08_clip, 'R07.11')


def r07_division(ctx):
    """Same type, ticks_per_beat and track count after save and load - for every value the header's division field may carry,
    the SMPTE forms (a negative ticks_per_beat) included: what loads can be saved again (shared with C08 R08.4)."""
    from . import c08
    ctx.borrow(c08.r08_division, 'R07.12')


def r07_save_pure(ctx):
    """save() writes the messages it is given and leaves them alone.  A writer that adjusts the caller's own message objects
    while encoding (folding the delta of a dropped end_of_track into the next message in place, say) stores wrong deltas as
    soon as a message object occurs twice in a track, and a different file on the second save: what loads back is then not
    what the file holds (shared with C16 R16.2 / R16.13, restricted to save)."""
    from . import c16
    ctx.borrow(lambda c: c16.r16_2(c, observers=('save',), floor=1), 'R07.13')
    ctx.borrow(c16.r16_save_leaves_contents, 'R07.13')


RULES = [('R07.13', r07_save_pure), ('R07.12', r07_division), ('R07.11', r07_clip), ('R07.10', r07_fixed_point), ('R07.8', r07_vlq), ('R07.9', r07_codec), ('R07-induction', r07_induction), ('R07-scenarios', r07_scenarios), ('R07.5', r07_5), ('R07.4', r07_4), ('R07-file', r07_file)]
# (r07_1_time - "the delta parameter reaches every returned message", a def-use rule over the reader's return paths - is retired:
# the reader scenarios and the one-step rules compare the time of every event kind, the unknown meta type included, and do
# not care whether the time is passed to the constructor or assigned afterwards)
