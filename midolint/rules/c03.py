"""C03 - no invalid message state is reachable through the checked API."""
from __future__ import annotations

import ast

from .. import astq, codec, reference
from ..absint import (AbsInt, AbsRaise, ADict, AList, AObj, Opaque, SeqVar, log_event)
from ..bits import AV
from ..fold import ClassRef, FuncRef
from ..intset import IntSet
from ..model import AnalysisError, FuncInfo, unparse
from ..paths import enumerate_paths

LEVEL = 'other'
EXPLANATION = (
    'Static analysis of every way message state can be written.  (1) The folded check table is exhaustive and '
    'every check function accepts exactly the documented integer set (interval-set reduction of its guards) with a '
    'type test first.  (2) Message.__init__, copy, _setattr, from_bytes, SysexData.__iadd__ and check_msgdict are '
    'abstractly interpreted with opaque marker values and the check functions replaced by logging summaries: on '
    'every outcome that stores a value into a message, a check of that very value precedes the first store; '
    'rejected names raise AttributeError/ValueError before any store; copy never writes to the original. '
    '(3) A whole-package scan lists every construct that can write an attribute dict (vars()/__dict__/setattr/'
    'object.__setattr__) and fails on any writer outside the analysed set; __setattr__/__delattr__ are resolved '
    'through the MRO.  (4) from_dict/from_str funnel into the checked constructor.')
TRUSTED = ['midolint abstract interpreter and folder', 'docs/message_types.rst domains (midolint.reference)']
ASSUMPTIONS = ['skip_checks is not passed (excluded by the property)',
               'no monkey patching; no C-level writes to instance dicts']

MSG = codec.MSG_MOD
CHK = codec.CHECKS_MOD


def _logging_interp(ctx):
    """Interpreter in which every function of _CHECKS is a logging summary."""
    table = codec.checks_table(ctx)
    ai = codec.make_interp(ctx)
    byq = {}
    for name, ref in table.items():
        q = codec.check_key(ref)
        if q is not None:
            byq.setdefault(q, []).append(name)

    def mk(q):
        def summ(interp, args, kwargs, node):
            v = args[0] if args else None
            if isinstance(v, AList) and v.kind in ('iterator', 'fickle'):
                # the real check loops over its argument: a one-shot iterable is used up by it, a changing one shows its first pass
                v = AList(interp.iterate(v, node, keep_vars=True), 'list')
            if 'data' in byq.get(q, ()) and (v is None or isinstance(v, (int, float, bool)) or isinstance(v, AV)):
                raise AbsRaise('TypeError', node, implicit=True, msg='check_data loops over its argument')
            log_event('check', q, v)
            return None
        return summ
    for name, ref in table.items():
        q = codec.check_key(ref)
        if isinstance(ref, FuncRef):
            ai.summaries[q] = mk(q)
        elif q is not None:
            ai.value_summaries[id(ref)] = mk(q)      # a closure made by a factory: summarised by identity
    ai.check_names = byq
    return ai, table


def _derived(value, marker):
    """value is the marker or a container built from it."""
    if value is marker:
        return True
    if isinstance(marker, AList) and isinstance(value, AList):
        mv = [x for x in marker.items if isinstance(x, SeqVar)]
        vv = [x for x in value.items if isinstance(x, SeqVar)]
        return bool(mv) and len(value.items) == len(marker.items) and all(a is b for a, b in zip(vv, mv))
    return False


def _checked_before_stores(log, table, obj, expect):
    """expect: {attr: marker}.  Returns (ok, why)."""
    first_store = next((i for i, e in enumerate(log) if e[0] == 'store' and e[1] is obj), len(log))
    for attr, marker in expect.items():
        ref = table.get(attr)
        q = codec.check_key(ref)
        hit = any(e[0] == 'check' and e[1] == q and _derived(e[2], marker) for e in log[:first_store])
        if not hit:
            return False, f'value of {attr!r} is stored without a preceding {q.split("::")[1] if q else "check"}'
    return True, ''


def _stored_items_checked(log, table, obj, attr):
    """One-shot iterables: whatever ends up stored under `attr` must have been seen, item for item, by the attribute's check before
    the first store (an iterator used up by an earlier consumer makes the later one see nothing)."""
    first_store = next((i for i, e in enumerate(log) if e[0] == 'store' and e[1] is obj), len(log))
    stored = obj.attrs.get(attr)
    items = [x for x in stored.items if isinstance(x, SeqVar)] if isinstance(stored, AList) else []
    ref = table.get(attr)
    q = codec.check_key(ref)
    seen = []
    for e in log[:first_store]:
        if e[0] == 'check' and e[1] == q and isinstance(e[2], AList):
            seen.extend(x for x in e[2].items if isinstance(x, SeqVar))
    missing = [x for x in items if not any(x is y for y in seen)]
    if missing:
        return False, f'items {missing!r} are stored under {attr!r} although the check never saw them (the check and the store each iterate the argument: a one-shot iterable is exhausted by then, a changing one gives something else)'
    return True, ''


def _markers(row, one_shot=False):
    out = {}
    for n in row['value_names']:
        out[n] = AList([SeqVar(f'M_{n}', 1 << 20)], one_shot if isinstance(one_shot, str) else 'iterator' if one_shot else 'list') if n == 'data' \
            else Opaque(f'M_{n}')
        if n == 'data' and one_shot == 'fickle':
            out[n].later = [SeqVar('M_data_second_pass', 1 << 20)]
    out['time'] = Opaque('M_time')
    return out


def r03_2(ctx):
    """The check table is exhaustive and right."""
    table = codec.checks_table(ctx)
    S = codec.specs(ctx)
    m = ctx.p.module(CHK)
    w = f'{m.relpath}:1 _CHECKS'
    need = {'type', 'time'}
    for row in S:
        need |= set(row['value_names'])
    missing = sorted(need - set(table))
    ctx.require(not missing, 'R03.2', '_CHECKS.exhaustive', w, f'attributes without a check: {missing}')
    doms = codec.attr_domains(ctx, 'R03.2')
    n = 0
    for name, (fn, r) in sorted(doms.items()):
        if r is None:
            continue
        n += 1
        want = reference.ATTR_DOMAINS.get(name)
        wf = ctx.where(fn)
        ctx.require(want is not None and r.accepted == IntSet.range(*want), 'R03.2', f'domain({name})', wf,
                    f'check accepts {r.accepted}, documented domain is {want}', construct=f'{fn.qname}::domain({name})')
        ctx.require(set(r.rejected) <= {'ValueError'}, 'R03.2', f'range-exc({name})', wf,
                    f'out-of-range values raise {sorted(r.rejected)}', construct=f'{fn.qname}::exc({name})')
        ctx.require(r.type_test is not None and 'Integral' in r.type_test and r.type_test_first, 'R03.2',
                    f'type-test({name})', wf, 'no Integral type test (TypeError) ahead of the range test',
                    construct=f'{fn.qname}::type({name})')
    ctx.floor('R03.2', n, 11)
    # the refusals, executed: just outside either end of the domain the check raises ValueError and nothing else (building the
    # message of the exception is part of raising it), for a float or a string TypeError
    from ..absint import AbsInt as _AI
    for name, (fn, r) in sorted(doms.items()):
        iv = codec.interval_of(r.accepted) if r is not None else None
        if iv is None:
            continue
        ref = table[name]
        for probe, want_exc in ((iv[0] - 1, 'ValueError'), (iv[1] + 1, 'ValueError'), (iv[1] + 1000, 'ValueError'), (1.5, 'TypeError'), ('x', 'TypeError')):
            ai_ = _AI(ctx.f)
            outs = ai_.explore(lambda: ai_.apply(ref, [probe], {}, None))
            ok = bool(outs) and all(o_.kind == 'raise' and o_.exc == want_exc for o_ in outs)
            ctx.require(ok, 'R03.2', f'refusal({name}={probe!r})', ctx.where(fn),
                        f'the check of {name} ends {outs} for {probe!r}; a refused value must raise {want_exc}',
                        construct=f'{fn.qname}::refusal({name})')
    fn_cd, item_fn, item_dom = codec.data_byte_domain(ctx)
    if item_dom is None:
        ctx.fail('R03.2', 'domain(data)', ctx.where(fn_cd), 'what check_data accepts cannot be established: it is not one item check applied to every item, and executed on lists (one value, one position at a time) it does not end the same way for the same items - or lets a bad item through',
                 construct=f'{fn_cd.qname}::shape')
    else:
        ctx.require(item_dom.accepted == IntSet.range(0, 127) and item_dom.type_test is not None,
                    'R03.2', 'domain(data[i])', ctx.where(item_fn), f'data items accepted: {item_dom.accepted}',
                    construct=f'{item_fn.qname}::domain(data)')
    # check_time: real numbers pass, anything else - text that looks like a number included - is a TypeError (by execution)
    ref = table.get('time')
    if isinstance(ref, FuncRef):
        fn = ctx.fn(ref.info)
        for probe, want in ((0, 'return'), (3, 'return'), (1.5, 'return'), (-2.5, 'return'), (True, 'return'), (10 ** 20, 'return'),
                            ('1.5', 'TypeError'), ('7', 'TypeError'), ('x', 'TypeError'), (None, 'TypeError'), ((1,), 'TypeError'), (1j, 'TypeError')):
            ai_ = _AI(ctx.f)
            outs = ai_.explore(lambda: ai_.apply(ref, [probe], {}, None))
            ok = bool(outs) and all((o_.kind == 'return') if want == 'return' else (o_.kind == 'raise' and o_.exc == want) for o_ in outs)
            ctx.require(ok, 'R03.2', f'type-test(time={probe!r})', ctx.where(fn),
                        f'the check of time ends {outs} for {probe!r}; ' + ('a real number is a valid time' if want == 'return' else
                                                                           'a time that is not a real number must raise TypeError'),
                        construct=f'{fn.qname}::type(time)')
    # check_type
    ref = table.get('type')
    if isinstance(ref, FuncRef):
        fn = ctx.fn(ref.info)
        ai = AbsInt(ctx.f)
        r1 = ai.explore(lambda: ai.call_function(fn, ['note_on'], {}))
        r2 = ai.explore(lambda: ai.call_function(fn, ['no_such_type'], {}))
        ctx.require([o.kind for o in r1] == ['return'] and [(o.kind, o.exc) for o in r2] == [('raise', 'ValueError')],
                    'R03.2', 'check_type', ctx.where(fn), f'check_type outcomes {r1} / {r2}', construct=f'{fn.qname}::behaviour')


def r03_2b(ctx):
    """check_msgdict visits every item and rejects unknown names/types."""
    ai, table = _logging_interp(ctx)
    # what the name is bound to in the module: a function, or a method bound to a module-level helper object
    try:
        cm_ref = ctx.f.global_value(ctx.p.module(CHK), 'check_msgdict')
    except Exception as e:       # noqa: BLE001
        raise AnalysisError(f'check_msgdict not found in {CHK}: {e}')
    if isinstance(cm_ref, FuncRef):
        fn = ctx.fn(cm_ref.info)
    elif isinstance(cm_ref, tuple) and len(cm_ref) == 3 and cm_ref[0] == 'bound':
        fn = ctx.fn(cm_ref[2])
    else:
        raise AnalysisError(f'check_msgdict in {CHK} is not a function ({cm_ref!r:.80})')

    w = ctx.where(fn)
    S = codec.specs(ctx)
    n = 0
    for row in S:
        t = row['type']
        mk = _markers(row)

        def thunk():
            d = {'type': t}
            d.update(mk)
            return ai.apply(cm_ref, [ADict(d)], {}, None)
        outs = ai.explore(thunk)
        n += 1
        if [o.kind for o in outs] != ['return']:
            ctx.fail('R03.2', f'check_msgdict({t})', w, f'valid-shaped dict is not accepted on one path: {outs}',
                     construct=f'{fn.qname}::{t}::accept')
            continue
        log = outs[0].log
        for attr, marker in list(mk.items()) + [('type', t)]:
            ref = table.get(attr)
            q = codec.check_key(ref)
            hit = any(e[0] == 'check' and e[1] == q and (_derived(e[2], marker) or e[2] == marker) for e in log)
            ctx.require(hit, 'R03.2', f'check_msgdict({t}).{attr}', w,
                        f'check_msgdict does not apply the {attr!r} check to the {attr!r} item',
                        construct=f'{fn.qname}::visits({attr})')

        def thunk2():
            d = {'type': t, 'bogus_attribute': Opaque('x')}
            d.update(mk)
            return ai.apply(cm_ref, [ADict(d)], {}, None)
        outs = ai.explore(thunk2)
        ok = all(o.kind == 'raise' and o.exc == 'ValueError' for o in outs)
        ctx.require(ok, 'R03.2', f'check_msgdict({t}).unknown-attribute', w,
                    f'an attribute the type does not have is not rejected with ValueError: {outs}',
                    construct=f'{fn.qname}::unknown-attribute')
        # an attribute that belongs to OTHER message types (a valid value for it, so that only the name can be the objection)
        foreign = sorted({nm for r2 in S for nm in r2['value_names']} - set(row['value_names']))
        for nm in foreign:
            def thunk3(nm=nm):
                d = {'type': t}
                d.update(mk)
                d[nm] = () if nm == 'data' else 0
                return ai.apply(cm_ref, [ADict(d)], {}, None)
            outs = ai.explore(thunk3)
            ok = bool(outs) and all(o.kind == 'raise' and o.exc == 'ValueError' for o in outs)
            ctx.require(ok, 'R03.2', f'check_msgdict({t}).foreign({nm})', w,
                        f'{nm!r} is an attribute of other message types, not of {t}; it is not rejected with ValueError: {outs} '
                        '(the message would carry an attribute its type does not have)', construct=f'{fn.qname}::foreign-attribute')
    outs = ai.explore(lambda: ai.apply(cm_ref, [ADict({'type': 'no_such_type', 'time': 0})], {}, None))
    ctx.require(all(o.kind == 'raise' and o.exc == 'ValueError' for o in outs), 'R03.2', 'check_msgdict.unknown-type', w,
                f'unknown type outcomes: {outs}', construct=f'{fn.qname}::unknown-type')
    for q in ai.inlined:
        ctx.functions.add(q)
    ctx.floor('R03.2b', n, 18)


def _attrs_for(row):
    d = {'type': row['type'], 'time': 0}
    for n in row['value_names']:
        d[n] = AList([SeqVar('OLD', 127)], 'tuple') if n == 'data' else 0
    return d


def r03_3_setattr(ctx):
    """Message._setattr: check precedes store; type/unknown rejected before any store."""
    ai, table = _logging_interp(ctx)
    cls = ctx.p.cls(MSG, 'Message')
    o, fn = ctx.p.lookup_method(cls, '__setattr__')
    if fn is None:
        ctx.fail('R03.4', 'Message.__setattr__', f'{cls.module.relpath}:{cls.node.lineno} Message',
                 'Message has no resolvable __setattr__', construct=f'{cls.qname}::__setattr__')
        return
    ctx.fn(fn)
    w = ctx.where(fn)
    S = codec.specs(ctx)
    n = 0
    for row, one_shot in [(r, False) for r in S] + [(r, k) for r in S if 'data' in r['value_names'] for k in (True, 'fickle')]:
        t = row['type']
        for attr in (list(row['value_names']) + ['time']) if not one_shot else ['data']:
            mk = _markers(row, one_shot)
            holder = {}

            def thunk():
                obj = AObj(cls, _attrs_for(row))
                holder['obj'] = obj
                holder['before'] = dict(obj.attrs)
                return ai.call_function(fn, [obj, attr, mk[attr]], {})
            outs = ai.explore(thunk)
            n += 1
            inst = f'setattr({t}.{attr}{" = one-shot iterable" if one_shot is True else " = iterable whose second pass differs" if one_shot else ""})'
            cons = f'{fn.qname}::{"data" if attr == "data" else "time" if attr == "time" else "value"}'
            if [o.kind for o in outs] != ['return']:
                ctx.fail('R03.3', inst, w, f'assignment of a (checked) value does not complete on one path: {outs}',
                         construct=cons + '::outcomes')
                continue
            obj = holder['obj']
            if one_shot:
                ok, why = _stored_items_checked(outs[0].log, table, obj, attr)
                ctx.require(ok, 'R03.3', inst, w, why, construct=cons + '::check-before-store')
                continue
            ok, why = _checked_before_stores(outs[0].log, table, obj, {attr: mk[attr]})
            ctx.require(ok, 'R03.3', inst, w, why, construct=cons + '::check-before-store')
            after = obj.attrs
            same_others = all(after.get(k) is v or after.get(k) == v for k, v in holder['before'].items() if k != attr) \
                and set(after) == set(holder['before'])
            ctx.require(same_others, 'R03.3', f'{inst}.others', w,
                        f'assignment changes other attributes or the attribute set: {sorted(set(after) ^ set(holder["before"]))}',
                        construct=cons + '::others')
            ctx.require(_derived(after.get(attr), mk[attr]), 'R03.3', f'{inst}.stored', w,
                        f'stored value is {after.get(attr)!r}, not the assigned one', construct=cons + '::stored')
            if attr == 'data':
                ctx.require(isinstance(after.get('data'), AList) and after['data'].kind == 'tuple', 'R03.3',
                            f'{inst}.normalised', w, 'sysex data is not normalised to a SysexData tuple',
                            construct=cons + '::normalised')
        for bad, what in (('type', 'type'), ('no_such_attribute', 'unknown')) if not one_shot else ():
            holder = {}

            def thunk():
                obj = AObj(cls, _attrs_for(row))
                holder['obj'] = obj
                return ai.call_function(fn, [obj, bad, Opaque('v')], {})
            outs = ai.explore(thunk)
            ok = all(o.kind == 'raise' and o.exc == 'AttributeError' and
                     not any(e[0] == 'store' for e in o.log) for o in outs)
            ctx.require(ok, 'R03.4', f'setattr({t}.{what})', w,
                        f'assigning {bad!r} is not rejected with AttributeError before any store: {outs}',
                        construct=f'{fn.qname}::reject({what})')
    for q in ai.inlined:
        ctx.functions.add(q)
    ctx.floor('R03.3', n, 40)


def r03_3_init(ctx):
    """Message.__init__ checks every stored value before the first store."""
    ai, table = _logging_interp(ctx)
    cls = ctx.p.cls(MSG, 'Message')
    o, fn = ctx.p.lookup_method(cls, '__init__')
    ctx.fn(fn)
    w = ctx.where(fn)
    S = codec.specs(ctx)
    n = 0
    for row, one_shot in [(r, False) for r in S] + [(r, k) for r in S if 'data' in r['value_names'] for k in (True, 'fickle')]:
        t = row['type']
        mk = _markers(row, one_shot)
        holder = {}

        def thunk():
            obj = AObj(cls, {})
            holder['obj'] = obj
            for v in mk.values():
                if isinstance(v, AList):
                    v.consumed = False
            return ai.call_function(fn, [obj, t], dict(mk))
        outs = ai.explore(thunk)
        n += 1
        inst = f'Message({t}, **all{", data = one-shot iterable" if one_shot is True else ", data = iterable whose second pass differs" if one_shot else ""})'
        if [o.kind for o in outs] != ['return']:
            ctx.fail('R03.1', inst, w, f'constructor outcomes: {outs}', construct=f'{fn.qname}::outcomes')
            continue
        obj = holder['obj']
        if one_shot:
            ok, why = _stored_items_checked(outs[0].log, table, obj, 'data')
            ctx.require(ok, 'R03.1', inst, w, why, construct=f'{fn.qname}::check-before-store')
            continue
        ok, why = _checked_before_stores(outs[0].log, table, obj, mk)
        ctx.require(ok, 'R03.1', inst, w, why, construct=f'{fn.qname}::check-before-store')
        ctx.require(set(obj.attrs) == set(row['value_names']) | {'type', 'time'} and obj.attrs.get('type') == t,
                    'R03.1', f'{inst}.attributes', w, f'constructed attribute set is {sorted(obj.attrs)}',
                    construct=f'{fn.qname}::attribute-set')
        # type itself must be checked too (check_msgdict does it through spec lookup) - unknown attr rejected:

        def thunk2():
            obj = AObj(cls, {})
            holder['obj'] = obj
            kw = dict(mk)
            kw['no_such_attribute'] = Opaque('x')
            return ai.call_function(fn, [obj, t], kw)
        outs = ai.explore(thunk2)
        ok = all(o.kind == 'raise' and o.exc in ('ValueError', 'TypeError', 'AttributeError')
                 and not any(e[0] == 'store' for e in o.log) for o in outs)
        ctx.require(ok, 'R03.1', f'Message({t}, unknown=)', w,
                    f'an unknown keyword is not rejected before any store: {outs}', construct=f'{fn.qname}::unknown')
        # defaults only
        def thunk3():
            obj = AObj(cls, {})
            holder['obj'] = obj
            return ai.call_function(fn, [obj, t], {})
        outs = ai.explore(thunk3)
        ok = [o.kind for o in outs] == ['return'] and set(holder['obj'].attrs) == set(row['value_names']) | {'type', 'time'}
        ctx.require(ok, 'R03.1', f'Message({t})', w, f'default construction outcomes {outs}', construct=f'{fn.qname}::defaults')
    # default values lie inside the domains
    defaults = ctx.f.table(codec.SPECS_MOD, 'DEFAULT_VALUES')
    m = ctx.p.module(codec.SPECS_MOD)
    for k, v in defaults.items():
        dom = reference.ATTR_DOMAINS.get(k)
        if dom is not None:
            ctx.require(isinstance(v, int) and dom[0] <= v <= dom[1], 'R03.1', f'default({k})', f'{m.relpath}:1 DEFAULT_VALUES',
                        f'default value {v!r} is outside {dom}')
    for q in ai.inlined:
        ctx.functions.add(q)
    ctx.floor('R03.1-init', n, 18)


def r03_3_copy(ctx):
    """copy(): overrides are checked, the original is never written."""
    ai, table = _logging_interp(ctx)
    cls = ctx.p.cls(MSG, 'Message')
    o, fn = ctx.p.lookup_method(cls, 'copy')
    ctx.fn(fn)
    w = ctx.where(fn)
    S = codec.specs(ctx)
    n = 0
    for row, one_shot in [(r, False) for r in S] + [(r, k) for r in S if 'data' in r['value_names'] for k in (True, 'fickle')]:
        t = row['type']
        for attr in (list(row['value_names']) + ['time']) if not one_shot else ['data']:
            mk = _markers(row, one_shot)
            holder = {}

            def thunk():
                obj = AObj(cls, _attrs_for(row))
                holder['obj'] = obj
                holder['before'] = dict(obj.attrs)
                return ai.call_function(fn, [obj], {attr: mk[attr]})
            outs = ai.explore(thunk)
            n += 1
            inst = f'copy({t}, {attr}={"<one-shot iterable>" if one_shot is True else "<iterable whose second pass differs>" if one_shot else ""})'
            obj = holder['obj']
            for o_ in outs:
                wrote = [e for e in o_.log if e[0] == 'store' and e[1] is obj]
                if wrote or obj.attrs != holder['before']:
                    ctx.fail('R03.3', f'{inst}.original', w, 'copy() writes to the original message',
                             construct=f'{fn.qname}::writes-original')
            if [o_.kind for o_ in outs] != ['return'] or not isinstance(outs[0].value, AObj):
                ctx.fail('R03.3', inst, w, f'copy outcomes {outs}', construct=f'{fn.qname}::outcomes')
                continue
            new = outs[0].value
            ctx.require(new is not obj and new.cls == cls, 'R03.3', f'{inst}.new-object', w,
                        'copy() does not return a new object of the same class', construct=f'{fn.qname}::new-object')
            if one_shot:
                ok, why = _stored_items_checked(outs[0].log, table, new, attr)
                ctx.require(ok, 'R03.3', inst, w, why, construct=f'{fn.qname}::check-before-store')
                continue
            ok, why = _checked_before_stores(outs[0].log, table, new, {attr: mk[attr]})
            ctx.require(ok, 'R03.3', inst, w, why, construct=f'{fn.qname}::check-before-store')
            ctx.require(_derived(new.attrs.get(attr), mk[attr]) and set(new.attrs) == set(holder['before']),
                        'R03.3', f'{inst}.result', w, f'copy result attributes {new.attrs!r}', construct=f'{fn.qname}::result')
        if one_shot:
            continue
        # type change / unknown attribute rejected, original untouched
        for kw, what in (({'type': 'no_such_type'}, 'type'), ({'no_such_attribute': Opaque('x')}, 'unknown')):
            holder = {}

            def thunk():
                obj = AObj(cls, _attrs_for(row))
                holder['obj'] = obj
                holder['before'] = dict(obj.attrs)
                return ai.call_function(fn, [obj], dict(kw))
            outs = ai.explore(thunk)
            ok = all(o_.kind == 'raise' and o_.exc in ('ValueError', 'TypeError', 'AttributeError') for o_ in outs) \
                and holder['obj'].attrs == holder['before']
            ctx.require(ok, 'R03.4', f'copy({t}, {what})', w, f'copy with a changed type / unknown attribute: {outs}',
                        construct=f'{fn.qname}::reject({what})')
        # no overrides: plain copy of the dict into a new object
        holder = {}

        def thunk0():
            obj = AObj(cls, _attrs_for(row))
            holder['obj'] = obj
            return ai.call_function(fn, [obj], {})
        outs = ai.explore(thunk0)
        ok = [o_.kind for o_ in outs] == ['return'] and isinstance(outs[0].value, AObj) and outs[0].value is not holder['obj'] \
            and outs[0].value.attrs == holder['obj'].attrs and outs[0].value.attrs is not holder['obj'].attrs \
            and not holder['obj'].stores
        ctx.require(ok, 'R03.3', f'copy({t})', w, f'plain copy outcomes {outs}', construct=f'{fn.qname}::plain-copy')
    for q in ai.inlined:
        ctx.functions.add(q)
    ctx.floor('R03.3-copy', n, 40)


def r03_4(ctx):
    """__delattr__ raises unconditionally; __setattr__ is _setattr."""
    for cname in ('Message',):
        cls = ctx.p.cls(MSG, cname)
        o, fn = ctx.p.lookup_method(cls, '__delattr__')
        if fn is None:
            ctx.fail('R03.4', f'{cname}.__delattr__', f'{cls.module.relpath}:{cls.node.lineno} {cname}',
                     'attributes can be deleted (no __delattr__ in the MRO)', construct=f'{cls.qname}::__delattr__')
            continue
        ctx.fn(fn)
        ps = enumerate_paths(fn.node)
        ctx.paths += len(ps)
        ok = all(p.status == 'raise' and astq.exc_name_of(p.exit_node()) in ('AttributeError', 'TypeError', 'ValueError') for p in ps) and ps
        ctx.require(ok, 'R03.4', f'{cname}.__delattr__', ctx.where(fn), '__delattr__ does not raise on every path',
                    construct=f'{fn.qname}::raises')


def r03_5(ctx, parts=('dict', 'str', 'iadd')):
    """from_dict / from_str funnel into the checked constructor; SysexData += checks."""
    base = ctx.p.cls(MSG, 'Message')
    o, fd = ctx.p.lookup_method(base, 'from_dict')
    o, fs = ctx.p.lookup_method(base, 'from_str')
    if fd is None or fs is None:
        raise AnalysisError('from_dict/from_str not found')
    ctx.fn(fd)
    ctx.fn(fs)
    # decided by executing them (not by the shape of their return statement): what they hand out went through the checks -
    # a valid dict / text gives the message with exactly those values and the defaults, an out-of-range or ill-typed value,
    # an attribute of another type and an unknown type are refused, and nothing is built on the side
    from ..fold import ClassRef
    from .. import strdom
    ai = codec.make_interp(ctx, data_checked=False)
    strdom.install(ai)
    good = {'type': 'note_on', 'note': 5, 'channel': 3}
    want = {'type': 'note_on', 'channel': 3, 'note': 5, 'velocity': 64, 'time': 0}
    cases = [('valid', dict(good), None), ('velocity 200', dict(good, velocity=200), ('ValueError',)), ('note -1', dict(good, note=-1), ('ValueError',)),
             ('channel 1.5', dict(good, channel=1.5), ('TypeError',)), ('attribute of another type', dict(good, pitch=0), ('ValueError', 'TypeError', 'AttributeError')),
             ('unknown type', {'type': 'no_such_message'}, ('ValueError', 'LookupError', 'KeyError')), ('time as text', dict(good, time='x'), ('TypeError',)),
             # None is a value like any other (the constructor, copy and assignment refuse it): not a way of saying "leave it out"
             ('note None', dict(good, note=None), ('TypeError',)), ('time None', dict(good, time=None), ('TypeError',)),
             ('unknown attribute None', dict(good, zzz=None), ('ValueError', 'TypeError', 'AttributeError')),
             ('sysex data None', {'type': 'sysex', 'data': None}, ('TypeError',))]
    for label, d, excs in (cases if 'dict' in parts else ()):
        outs = ai.explore(lambda: ai.call_function(fd, [ClassRef(base), ADict(dict(d))], {}))
        ctx.call_sites += 1
        if excs is None:
            ok = len(outs) == 1 and outs[0].kind == 'return' and isinstance(outs[0].value, AObj) and outs[0].value.cls is base \
                and {k: v for k, v in outs[0].value.attrs.items()} == want
        else:
            ok = bool(outs) and all(o_.kind == 'raise' and o_.exc in excs for o_ in outs)
        ctx.require(ok, 'R03.5', f'from_dict({label})', ctx.where(fd),
                    f'from_dict({d}) gives {outs}; expected ' + ('the message with these values and the defaults' if excs is None else f'a refusal ({"/".join(excs)})')
                    + ' - it must go through the checked constructor', construct=f'{fd.qname}::funnel')
    # the checks have no memory: a value refused for its type is refused whatever was accepted before it (a set or cache of
    # "values already checked" finds 5.0 under 5 - equal and equally hashed - and lets the float through)
    for label, first, second in (('note 5 accepted, then note 5.0', dict(good), dict(good, note=5.0)),
                                 ('defaults accepted, then velocity 64.0', dict(good), dict(good, velocity=64.0))) if 'dict' in parts else ():
        def thunk_h():
            ai.call_function(fd, [ClassRef(base), ADict(dict(first))], {})
            return ai.call_function(fd, [ClassRef(base), ADict(dict(second))], {})
        outs = ai.explore(thunk_h)
        ctx.call_sites += 1
        ok = bool(outs) and all(o_.kind == 'raise' and o_.exc in ('TypeError',) for o_ in outs)
        ctx.require(ok, 'R03.5', f'from_dict({label})', ctx.where(fd),
                    f'from_dict({first}) and then from_dict({second}) gives {outs}; expected a refusal (TypeError) of the second, as on a fresh start',
                    construct=f'{fd.qname}::history')
    for label, text, excs in (('valid', 'note_on channel=3 note=5', None), ('velocity 200', 'note_on velocity=200', ('ValueError',)),
                              ('attribute of another type', 'note_on pitch=0', ('ValueError',)), ('unknown type', 'no_such_message', ('ValueError',)),
                              ('a constructor parameter as a word', 'note_on skip_checks=1 velocity=200', ('ValueError',)),
                              # the text of an integer attribute is an integer: nothing is rounded, truncated or pulled back into range
                              ('a fraction for an integer', 'note_on note=60.5', ('ValueError',)), ('just beyond the limit', 'note_on note=127.9', ('ValueError',)),
                              ('just below zero', 'note_on channel=-0.5', ('ValueError',)), ('infinity', 'note_on note=inf', ('ValueError',)),
                              ('an exponent', 'note_on note=1e1', ('ValueError',)), ('an overflowing exponent', 'note_on note=1e999', ('ValueError',)),
                              ('minus infinity', 'note_on velocity=-inf', ('ValueError',)), ('not a number', 'note_on note=nan', ('ValueError',))) if 'str' in parts else ():
        outs = ai.explore(lambda: ai.call_function(fs, [ClassRef(base), text], {}))
        ctx.call_sites += 1
        if excs is None:
            ok = len(outs) == 1 and outs[0].kind == 'return' and isinstance(outs[0].value, AObj) and outs[0].value.cls is base \
                and {k: v for k, v in outs[0].value.attrs.items()} == want
        else:
            ok = bool(outs) and all(o_.kind == 'raise' and o_.exc in excs for o_ in outs)
        ctx.require(ok, 'R03.5', f'from_str({label})', ctx.where(fs),
                    f'from_str({text!r}) gives {outs}; expected ' + ('the message with these values and the defaults' if excs is None else f'a refusal ({"/".join(excs)})'),
                    construct=f'{fs.qname}::funnel')
    for q in ai.inlined:
        ctx.functions.add(q)
    # writes to message state inside from_str/from_dict are forbidden (handled by R03.1 scan)
    if 'iadd' not in parts:
        return
    sd = ctx.p.cls(MSG, 'SysexData')
    ia = sd.methods.get('__iadd__')
    if ia is None:
        ctx.fail('R03.5', 'SysexData.__iadd__', f'{sd.module.relpath}:{sd.node.lineno} SysexData', '__iadd__ missing',
                 construct=f'{sd.qname}::__iadd__')
        return
    ctx.fn(ia)
    ai, table = _logging_interp(ctx)
    marker = AList([SeqVar('M_other', 1 << 20)], 'list')
    def thunk_ia():
        me = AList([SeqVar('OLD', 127)], 'tuple')
        me.cls = sd                    # (a SysexData: type(self) is that class)
        return ai.call_function(ia, [me, marker], {})
    outs = ai.explore(thunk_ia)
    q = table['data'].info.qname
    ok = [o_.kind for o_ in outs] == ['return'] and any(e[0] == 'check' and e[1] == q and _derived(e[2], marker) for e in outs[0].log)
    ctx.require(ok, 'R03.5', 'SysexData.__iadd__', ctx.where(ia), f'data += other does not check other first: {outs}',
                construct=f'{ia.qname}::check')


_WRITE_METHODS = {'update', 'pop', 'popitem', 'clear', 'setdefault', '__setitem__', '__delitem__'}
# functions allowed to write an attribute dict, with the reason
APPROVED_WRITERS = {
    'mido/messages/messages.py::Message.__init__': 'checked constructor (R03.1)',
    'mido/messages/messages.py::Message.copy': 'plain copy into a new object (R03.3)',
    'mido/messages/messages.py::Message.from_bytes': 'stores the checked decode result (C02)',
    'mido/messages/messages.py::Message._setattr': 'check-before-store (R03.3)',
    'mido/frozen.py::freeze_message': 'whole-dict copy into a new frozen object (C15)',
    'mido/frozen.py::thaw_message': 'whole-dict copy into a new object (C15)',
    'mido/midifiles/meta.py::MetaMessage.__init__': 'meta constructor (C09 R09.5)',
    'mido/midifiles/meta.py::MetaMessage.copy': 'plain copy (C09)',
    'mido/midifiles/meta.py::MetaMessage._setattr': 'meta check-before-store (C09 R09.5)',
    'mido/midifiles/meta.py::UnknownMetaMessage.__init__': 'unknown meta (C09, finding D7)',
    'mido/midifiles/meta.py::UnknownMetaMessage.__setattr__': 'unknown meta (C09, finding D7)',
    'mido/__init__.py::set_backend': 'module globals, not a message (C20)',
}


def dict_write_sites(p):
    """Every construct in mido/ that can write an instance attribute dict."""
    sites = []
    for fn in list(p.all_functions()):
        node = fn.node
        aliases = set()
        for n in astq.walk_shallow(node):
            if isinstance(n, ast.Assign) and _is_dict_of(n.value) and not _is_copy(n.value):
                for t in n.targets:
                    if isinstance(t, ast.Name):
                        aliases.add(t.id)

        def is_live(e):
            return _is_dict_of(e) or (isinstance(e, ast.Name) and e.id in aliases)
        for n in astq.walk_shallow(node):
            if isinstance(n, (ast.Assign, ast.AugAssign, ast.AnnAssign)):
                tg = n.targets if isinstance(n, ast.Assign) else [n.target]
                for t in tg:
                    for x in astq._flatten(t):
                        if isinstance(x, ast.Subscript) and is_live(x.value):
                            sites.append((fn, n, 'subscript store'))
                        if isinstance(x, ast.Attribute) and x.attr == '__dict__':
                            sites.append((fn, n, '__dict__ rebinding'))
            elif isinstance(n, ast.Delete):
                for t in n.targets:
                    if isinstance(t, ast.Subscript) and is_live(t.value):
                        sites.append((fn, n, 'del item'))
            elif isinstance(n, ast.Call):
                f = n.func
                if isinstance(f, ast.Attribute) and f.attr in _WRITE_METHODS and is_live(f.value):
                    sites.append((fn, n, f'.{f.attr}()'))
                elif isinstance(f, ast.Attribute) and f.attr in ('__setattr__', '__delattr__') \
                        and isinstance(f.value, ast.Name) and f.value.id in ('object', 'super'):
                    sites.append((fn, n, f'object.{f.attr}()'))
                elif isinstance(f, ast.Attribute) and f.attr in ('__setattr__', '__delattr__') and \
                        isinstance(f.value, ast.Call) and isinstance(f.value.func, ast.Name) and f.value.func.id == 'super':
                    sites.append((fn, n, f'super().{f.attr}()'))
    return sites


def _is_dict_of(e):
    if isinstance(e, ast.Call) and isinstance(e.func, ast.Name) and e.func.id in ('vars', 'globals') and len(e.args) <= 1:
        return True
    if isinstance(e, ast.Attribute) and e.attr == '__dict__':
        return True
    return False


def _is_copy(e):
    return False


def _users_of(ctx, fn):
    """Functions of the package whose body mentions fn by name (call or reference), fn itself excluded."""
    out = []
    for g in ctx.p.all_functions():
        if g.qname == fn.qname:
            continue
        for n in ast.walk(g.node):
            if (isinstance(n, ast.Attribute) and n.attr == fn.name) or (isinstance(n, ast.Name) and n.id == fn.name):
                out.append(g)
                break
    # module level uses (tables of functions) are not callers we can vouch for
    for m in ctx.p.modules.values():
        for st in m.tree.body:
            if isinstance(st, (ast.FunctionDef, ast.AsyncFunctionDef, ast.ClassDef, ast.Import, ast.ImportFrom)):
                continue
            for n in ast.walk(st):
                if (isinstance(n, ast.Attribute) and n.attr == fn.name) or (isinstance(n, ast.Name) and n.id == fn.name):
                    return []
    return out


def r03_1_scan(ctx):
    sites = dict_write_sites(ctx.p)
    n = 0
    seen = set()
    for fn, node, kind in sites:
        n += 1
        ctx.call_sites += 1
        # approved: the frozen table of analysed writers, plus helpers that were inlined - hence analysed in context, every store
        # logged and held against the checks - while the entry points above were interpreted (setattr()/delattr() builtins go
        # through the checked __setattr__/__delattr__ and are not raw writes)
        ok = fn.qname in APPROVED_WRITERS or fn.qname in ctx.functions
        if not ok and fn.name.startswith('_') and not fn.name.startswith('__'):
            # a private helper: it writes for its callers.  Approved when every function of the package that names it is an
            # approved or analysed writer itself (a new caller anywhere else is reported through this very obligation)
            users = _users_of(ctx, fn)
            ok = bool(users) and all(u.qname in APPROVED_WRITERS or u.qname in ctx.functions for u in users)
        seen.add(fn.qname)
        ctx.require(ok, 'R03.1', f'writer({fn.qname.split("::")[1]})', ctx.where(fn, node),
                    f'{kind} on an attribute dict in a function that is not an analysed writer of message state '
                    f'({unparse(node)[:80]})', construct=f'{fn.qname}::dict-write')
    ctx.floor('R03.1-scan', n, 4)
    # class-level machinery that could bypass the checks
    for modname in (MSG,):
        m = ctx.p.module(modname)
        for c in m.classes.values():
            for bad in ('__slots__', '__getattribute__', '__setstate__', '__reduce__'):
                if bad in c.attrs or bad in c.methods:
                    ctx.fail('R03.1', f'{c.name}.{bad}', f'{m.relpath}:{c.node.lineno} {c.name}',
                             f'{bad} changes how message state is stored and is not modelled', construct=f'{c.qname}::{bad}')
    # callees that receive the live dict must not mutate it
    for fq, pname in (('mido.messages.encode::encode_message', None), ('mido.messages.strings::msg2str', None)):
        modname, fname = fq.split('::')
        f = ctx.fn(ctx.p.func(modname, fname))
        par = f.params()[0]
        muts = []
        for nnode in astq.walk_shallow(f.node):
            if isinstance(nnode, (ast.Assign, ast.AugAssign)):
                tg = nnode.targets if isinstance(nnode, ast.Assign) else [nnode.target]
                for t in tg:
                    for x in astq._flatten(t):
                        if isinstance(x, ast.Subscript) and isinstance(x.value, ast.Name) and x.value.id == par:
                            muts.append(nnode)
            if isinstance(nnode, ast.Call) and isinstance(nnode.func, ast.Attribute) and nnode.func.attr in _WRITE_METHODS \
                    and isinstance(nnode.func.value, ast.Name) and nnode.func.value.id == par:
                muts.append(nnode)
        ctx.require(not muts, 'R03.1', f'{fname}.readonly', ctx.where(f),
                    f'{fname} receives vars(message) and mutates it', construct=f'{f.qname}::mutates-param')


def r03_illtyped_data(ctx):
    """Sysex data that is not a sequence of integers at all (an int, a float, None) is rejected with TypeError or ValueError by the
    constructor, copy() and attribute assignment alike, and leaves the message as it was - bytearray(5), for one, is five zero
    bytes, not a type error."""
    ai, table = _logging_interp(ctx)
    cls = ctx.p.cls(MSG, 'Message')
    row = next(r for r in codec.specs(ctx) if 'data' in r['value_names'])
    t = row['type']
    o, init = ctx.p.lookup_method(cls, '__init__')
    o, copy = ctx.p.lookup_method(cls, 'copy')
    o, seta = ctx.p.lookup_method(cls, '__setattr__')
    n = 0
    for bad, label in ((5, 'the int 5'), (2.5, 'a float'), (None, 'None'), (True, 'True')):
        for how, fn in (('constructor', init), ('copy', copy), ('assignment', seta)):
            if fn is None:
                continue
            holder = {}

            def thunk():
                if how == 'constructor':
                    obj = AObj(cls, {})
                    holder['obj'] = obj
                    return ai.call_function(fn, [obj, t], {'data': bad})
                obj = AObj(cls, _attrs_for(row))
                holder['obj'] = obj
                holder['before'] = dict(obj.attrs)
                if how == 'copy':
                    return ai.call_function(fn, [obj], {'data': bad})
                return ai.call_function(fn, [obj, 'data', bad], {})
            outs = ai.explore(thunk)
            n += 1
            ok = bool(outs) and all(o_.kind == 'raise' and o_.exc in ('TypeError', 'ValueError') for o_ in outs)
            if ok and how != 'constructor':
                ok = holder['obj'].attrs == holder['before']
            ctx.require(ok, 'R03.3', f'{how}(sysex, data={label})', ctx.where(fn),
                        f'data = {label} through the {how}: {outs}; expected TypeError or ValueError and an unchanged message',
                        construct=f'{fn.qname}::ill-typed-data')
    ctx.floor('R03.3-illtyped', n, 9)
    for q in ai.inlined:
        ctx.functions.add(q)


def r03_frozen(ctx):
    """freeze_message / thaw_message write message state too: what they produce has the same checked, normalised state as
    their argument (sysex data a SysexData tuple - a list there is extended in place by `data += ...` BEFORE the check rejects
    it).  Shared with C15 R15.1/R15.2."""
    from . import c15
    ctx.borrow(c15.r15_freeze_thaw, 'R03.6')


def r03_export(ctx):
    """No way around the checks: what dict() hands out is a new dictionary, not the message's own attribute table - writing
    data['note'] = 300 into the export must not put 300 into the message (shared with C14 R14.5)."""
    from . import c14
    ctx.borrow(c14.r14_dict, 'R03.7')


RULES = [('R03.7', r03_export), ('R03.6', r03_frozen), ('R03.3-illtyped', r03_illtyped_data), ('R03.2', r03_2), ('R03.2b', r03_2b), ('R03.3-setattr', r03_3_setattr), ('R03.1-init', r03_3_init),
         ('R03.3-copy', r03_3_copy), ('R03.4', r03_4), ('R03.5', r03_5), ('R03.1-scan', r03_1_scan)]
