"""C02 - from_bytes accepts exactly the well-formed single-message encodings."""
from __future__ import annotations

import ast

from .. import astq, codec, reference
from ..absint import AbsRaise, ADict, AList, AObj, Opaque, SeqVar, exc_is, handler_names
from ..bits import AV, Sym
from ..fold import ClassRef
from ..intset import IntSet
from ..model import AnalysisError, unparse

LEVEL = 'proof'
EXPLANATION = (
    'Message.from_bytes (with decode_message and its callees inlined) is abstractly interpreted for every '
    'first byte 0..255 and every number of following data bytes 0..4 with symbolic data bytes, and for the '
    'sysex shapes (no terminator, empty, terminated, terminated+extra, interior status byte).  Obligation '
    'per shape: the set of outcomes is exactly {return} when the shape is one complete message of the MIDI '
    '1.0 table and {raise ValueError} otherwise; no implicit IndexError/KeyError can escape; check_data is '
    'applied to exactly the data bytes on every returning path; the item check rejects > 127 with '
    'ValueError and non-integers with TypeError.  Exact reproduction of the input by bytes() is the '
    'bijection obligation of C01 (R01.3b).')
TRUSTED = [
    'midolint.absint abstract interpreter, midolint.bits, midolint.fold',
    'midolint.reference MIDI 1.0 status table',
    'Python semantics of len(), indexing and slicing on sequences as modelled in absint',
]
ASSUMPTIONS = [
    'the argument is a sequence (supports len(), [0], [1:]) of items; item type errors are decided by the check_data_byte type test',
    'a non-integer *first* item is reported by mido as ValueError (invalid status byte) or TypeError depending on hashability; not decided',
]

MSG = codec.MSG_MOD


def smf_sym(name, umax, lo=0):
    from ..bits import Sym
    return AV.of_sym(Sym(name, umax), lo)


def _interp(ctx, item_dom):
    accepted = item_dom.accepted if item_dom is not None else IntSet.range(0, 127)

    def s_check_data(interp, args, kwargs, node):
        lst = args[0] if args else None
        interp.check_data_calls.append((node, lst))
        items = []
        if isinstance(lst, AList):
            items = lst.items
        elif isinstance(lst, (list, tuple)):
            items = list(lst)
        for it in items:
            if isinstance(it, SeqVar):
                lo, hi = 0, it.sym.umax
            elif isinstance(it, AV) and not it.is_top:
                lo, hi = it.interval()
            elif isinstance(it, int):
                lo = hi = it
            else:
                continue
            inside = accepted.intersect(IntSet.range(lo, hi)) == IntSet.range(lo, hi)
            if not inside:
                if accepted.intersect(IntSet.range(lo, hi)).is_empty() or interp.decide(node, 'data byte out of range'):
                    raise AbsRaise('ValueError', node)
        return None
    ai = codec.make_interp(ctx, extra={'mido/messages/checks.py::check_data': s_check_data})
    return ai


def _outcomes(ctx, ai, fb, cls, shape):
    ai.check_data_calls = []
    tm = Opaque('t')
    outs = ai.explore(lambda: ai.call_function(fb, [ClassRef(cls), AList(list(shape), 'list')], {'time': tm}))
    return outs


def r02_1(ctx):
    fn_cd, item_fn, item_dom = codec.data_byte_domain(ctx)
    cls = ctx.p.cls(MSG, 'Message')
    fb = ctx.fn(ctx.p.func(MSG, 'Message.from_bytes'))
    dec = ctx.fn(ctx.p.func(codec.DEC_MOD, 'decode_message'))
    ai = _interp(ctx, item_dom)
    w = ctx.where(dec)
    ref = {}
    for status, t, names, length in reference.MIDI_SPECS:
        if status < 0xf0:
            for ch in range(16):
                ref[status | ch] = (t, length)
        else:
            ref[status] = (t, length)
    shapes = 0
    families = set()

    def judge(shape, first, ndata, expect_ok, label, family):
        nonlocal shapes
        shapes += 1
        outs = _outcomes(ctx, ai, fb, cls, shape)
        inst = f'from_bytes({label})'
        cons = f'{dec.qname}::{family}::{"accept" if expect_ok else "reject"}({ndata})'
        kinds = set()
        for o in outs:
            if o.kind == 'return':
                kinds.add('return')
            else:
                kinds.add(('raise', o.exc, o.implicit))
        bad_exc = [k for k in kinds if k != 'return' and not (k[1] == 'ValueError')]
        if bad_exc:
            e = bad_exc[0]
            node = next(o.node for o in outs if o.kind == 'raise' and o.exc == e[1])
            ctx.fail('R02.2', inst, f'{w.split(":")[0]}:{getattr(node, "lineno", 0)} {dec.name}',
                     f'{e[1]} can escape ({"implicit, from " + unparse(node) if e[2] else "explicit"}) - only ValueError/TypeError are allowed',
                     construct=f'{dec.qname}::{family}::escape({e[1]})')
            return
        if expect_ok:
            if kinds != {'return'}:
                ctx.fail('R02.1', inst, w, f'a well-formed message is not always accepted: outcomes {outs}', construct=cons)
                return
            ctx.ok('R02.1', inst, w)
            # R02.3 range guard on exactly the data bytes
            for o in outs:
                pass
            calls = ai.check_data_calls
            data_items = list(shape[1:])
            if first == 0xf0:
                data_items = data_items[:-1]
            ok = False
            for node, lst in calls:
                items = lst.items if isinstance(lst, AList) else list(lst) if isinstance(lst, (list, tuple)) else None
                if items is not None and len(items) == len(data_items) and all(
                        (a is b) or (isinstance(a, AV) and isinstance(b, AV) and a.same(b)) or
                        (isinstance(a, SeqVar) and isinstance(b, SeqVar) and a.sym == b.sym) or
                        (not isinstance(a, (AV, SeqVar)) and a == b)
                        for a, b in zip(items, data_items)):
                    ok = True
            ctx.require(ok, 'R02.3', f'{inst}.check_data', w,
                        'the data byte range check is not applied to exactly the data bytes before a message is returned'
                        f' (calls seen: {[repr(c[1]) for c in calls]})',
                        construct=f'{dec.qname}::{family}::check_data')
        else:
            if 'return' in kinds:
                ctx.fail('R02.1', inst, w,
                         f'input that is not exactly one complete message can be accepted ({ndata} data bytes after {label.split(",")[0]})',
                         construct=cons)
                return
            ctx.ok('R02.1', inst, w)

    for first in range(256):
        entry = ref.get(first)
        for ndata in range(0, 5):
            if first == 0xf0:
                continue
            syms = [Sym(f'd{i}', 255) for i in range(ndata)]
            shape = [first] + [AV.of_sym(s) for s in syms]
            if entry is None:
                fam = 'undefined' if first >= 0x80 else 'data-first'
                expect = False
            else:
                fam = entry[0] if first >= 0xf0 else f'channel:{entry[0]}'
                expect = (ndata == entry[1] - 1)
            families.add(fam)
            if expect:
                # in-range data for the accept case (range is R02.3's business)
                syms = [Sym(f'd{i}', 127) for i in range(ndata)]
                shape = [first] + [AV.of_sym(s) for s in syms]
            judge(shape, first, ndata, expect, f'{first:#04x}, {ndata} data', fam)
    # empty input
    judge([], None, 0, False, 'empty', 'empty')
    # sysex shapes
    D = SeqVar('D', 127)
    D1 = SeqVar('D', 127, minlen=1)
    judge([0xf0], 0xf0, 0, False, '0xf0 alone', 'sysex')
    judge([0xf0, 0xf7], 0xf0, 1, True, '0xf0 0xf7', 'sysex')
    judge([0xf0, D, 0xf7], 0xf0, 2, True, '0xf0 D* 0xf7', 'sysex')
    judge([0xf0, D1], 0xf0, 1, False, '0xf0 D+ (no terminator)', 'sysex')
    judge([0xf0, D, 0x00], 0xf0, 2, False, '0xf0 D* 0x00', 'sysex')
    judge([0xf0, D, 0xf7, 0x01], 0xf0, 3, False, '0xf0 D* 0xf7 0x01', 'sysex')
    judge([0xf0, 0xf7, 0xf7], 0xf0, 2, False, '0xf0 0xf7 0xf7', 'sysex')
    judge([0xf0, D, 0x90, D, 0xf7], 0xf0, 4, False, '0xf0 D* 0x90 D* 0xf7', 'sysex')
    judge([0xf0, D, 0xf8, 0xf7], 0xf0, 3, False, '0xf0 D* 0xf8 0xf7', 'sysex')
    judge([0xf0, D, 0x90], 0xf0, 2, False, '0xf0 D* 0x90', 'sysex')
    judge([0xf0, D, 0xf8], 0xf0, 2, False, '0xf0 D* 0xf8', 'sysex')
    judge([0xf0, 0x80], 0xf0, 1, False, '0xf0 0x80', 'sysex')
    judge([0xf0, D, 0xff], 0xf0, 2, False, '0xf0 D* 0xff', 'sysex')
    ctx.floor('R02.1', shapes, 255 * 5 + 13)
    ctx.floor('R02.1-families', len(families), 19)
    for q in ai.inlined:
        ctx.functions.add(q)
    # item check
    if item_dom is None:
        ctx.fail('R02.3', 'check_data', ctx.where(fn_cd), 'what check_data accepts cannot be established: it is not one item check applied to every item, and executed on lists (one value, one position at a time) it does not end the same way for the same items - or lets a bad item through',
                 construct=f'{fn_cd.qname}::shape')
    else:
        wi = ctx.where(item_fn)
        ctx.require(item_dom.accepted == IntSet.range(0, 127), 'R02.3', 'item-range', wi,
                    f'data bytes accepted: {item_dom.accepted}; must be exactly 0..127',
                    construct=f'{item_fn.qname}::domain(data)')
        ctx.require(set(item_dom.rejected) <= {'ValueError'}, 'R02.3', 'item-range-exc', wi,
                    f'out of range data bytes raise {sorted(item_dom.rejected)}', construct=f'{item_fn.qname}::exc')
        ctx.require(item_dom.type_test is not None and 'Integral' in item_dom.type_test and item_dom.type_test_first,
                    'R02.3', 'item-type', wi, 'non-integer items do not raise TypeError', construct=f'{item_fn.qname}::type')


def r02_4(ctx):
    B = codec.spec_by_status(ctx)
    m = ctx.p.module(codec.SPECS_MOD)
    w = f'{m.relpath}:1 SPEC_BY_STATUS'
    bad = sorted(k for k in B if not isinstance(k, int) or k < 0x80 or k > 0xff or k in reference.UNDEFINED_STATUS)
    ctx.require(not bad, 'R02.4', 'status-domain', w, f'SPEC_BY_STATUS has keys that are not defined status bytes: {bad}')
    ctx.require(len(B) == 123, 'R02.4', 'status-count', w, f'{len(B)} status bytes defined, MIDI 1.0 has 123')


def r02_5(ctx):
    """The RtMidi callback survives device data that is not one well-formed message: the callback wrapper is interpreted on an
    Input whose queue is a recording double, with (bytes, delta) pairs holding a complete message, a message cut short, a data
    byte out of range and nothing at all; it must return normally each time and hand over exactly the complete message.
    (Where the handler for what from_bytes raises sits - in the wrapper, in a helper - makes no difference.)"""
    from .. import portmodel as pm
    try:
        fn = ctx.p.func('mido.backends.rtmidi', 'Input._callback_wrapper')
        cls = ctx.p.cls('mido.backends.rtmidi', 'Input')
    except AnalysisError:
        ctx.notes.append('rtmidi backend callback not found')
        ctx.floor('R02.5', 0, 1)
        return
    ctx.fn(fn)
    w = ctx.where(fn)
    item_dom = codec.data_byte_domain(ctx)[2]
    n = 0
    for label, data, want in (('complete note_on', [0x90, 60, 64], 1), ('note_on cut short', [0x90, 60], 0), ('data byte 200', [0x90, 200, 1], 0),
                              ('no bytes', [], 0), ('two messages', [0x90, 60, 64, 0x80, 60, 64], 0), ('real-time byte', [0xf8], 1)):
        ai = pm.make_interp(ctx)
        ref_ai = _interp(ctx, item_dom)
        key = 'mido/messages/checks.py::check_data'
        ai.summaries[key] = ref_ai.summaries[key]           # the item check with its real domain (R02.3)
        ai.check_data_calls = []
        got = []

        def put(interp, base, args, kwargs, node, got=got):
            got.append(args[0] if args else None)
            return None
        q = pm.AMock('ParserQueue', {'put': put, 'iterpoll': lambda i_, b_, a_, k_, n_: AList([], 'list')})
        # the port is opened by its own _open(), whatever private attributes that sets up (a lock, a queue, a callback slot, one
        # object holding the three): the RtMidi library, the API tables and the queue class are doubles
        RT = 'mido/backends/rtmidi.py'
        ai.summaries['rtmidi.MidiIn'] = lambda i_, a_, k_, n_: pm.AMock('MidiIn', {'get_current_api': lambda i2, b2, a2, k2, n2: 0})
        ai.summaries[f'{RT}::_get_api_id'] = lambda i_, a_, k_, n_: 0
        ai.summaries[f'{RT}::_open_port'] = lambda i_, a_, k_, n_: 'port'
        ai.global_overrides[('mido.backends.rtmidi', '_api_to_name')] = {0: 'UNSPECIFIED'}
        ai.summaries['mido/backends/_parser_queue.py::ParserQueue'] = lambda i_, a_, k_, n_, q=q: q

        def thunk(ai=ai, q=q, data=data, got=got):
            port = pm.new_port(ai, ctx, 'Input', ['port'], {}, module='mido.backends.rtmidi')
            del got[:]
            return ai.call_function(fn, [port, AList([AList(list(data), 'list'), 0.0], 'tuple'), None], {}, None)
        outs = ai.explore(thunk)
        n += 1
        ctx.call_sites += 1
        ok = len(outs) == 1 and outs[0].kind == 'return'
        ctx.require(ok, 'R02.5', f'rtmidi-callback[{label}]', w,
                    f'the RtMidi callback does not return normally for device data {data}: {outs} {[[d[2] for d in o.decisions] for o in outs]} (Message.from_bytes raises ValueError for '
                    'malformed data; an exception in the callback thread kills input)', construct=f'{fn.qname}::handler')
        if ok:
            types = [m.attrs.get('type') for m in got if isinstance(m, AObj)]
            ctx.require(len(got) == want and len(types) == want, 'R02.5', f'rtmidi-callback[{label}].delivered', w,
                        f'device data {data}: {len(got)} messages handed over ({types}), expected {want}', construct=f'{fn.qname}::delivers')
    ctx.floor('R02.5', n, 6)


def r02_7(ctx):
    """from_hex(text) behaves exactly as from_bytes(the bytes the text denotes): for status bytes of every family and 0..3 data
    bytes ranging over 0..255 (a hex pair cannot denote anything else) the two entry points have the same set of outcomes -
    same messages, same exception types.  So everything R02.1-R02.3 establish for from_bytes holds for from_hex."""
    from .. import strdom
    fn_cd, item_fn, item_dom = codec.data_byte_domain(ctx)
    cls = ctx.p.cls(MSG, 'Message')
    fb = ctx.fn(ctx.p.func(MSG, 'Message.from_bytes'))
    fh = ctx.fn(ctx.p.func(MSG, 'Message.from_hex'))
    ai = _interp(ctx, item_dom)
    strdom.install(ai)
    w = ctx.where(fh)
    n = 0

    def norm(outs):
        res = set()
        for o in outs:
            if o.kind == 'return':
                v = o.value
                res.add(('return', repr(sorted((k, repr(x)) for k, x in v.attrs.items())) if isinstance(v, AObj) else repr(v)))
            else:
                res.add(('raise', o.exc))
        return res
    for first in (0x80, 0x9f, 0xa5, 0xb0, 0xc3, 0xd1, 0xe0, 0xf0, 0xf1, 0xf2, 0xf3, 0xf4, 0xf6, 0xf7, 0xf8, 0xfe, 0x40, 0x00):
        for ndata in range(0, 4):
            for lo, hi, dl in ((0, 255, 'any byte'), (128, 255, 'bytes above 127')):
                if ndata == 0 and lo:
                    continue
                data = [smf_sym(f'h{i}', hi - lo, lo) for i in range(ndata)]
                shapes = [[first] + data]
                if first == 0xf0:
                    shapes.append([first] + data + [0xf7])
                for shape in shapes:
                    n += 1
                    segs = []
                    for i, b in enumerate(shape):
                        if i:
                            segs.append(' ')
                        segs.append(f'{b:02X}' if isinstance(b, int) else strdom.Hex2(b))
                    text = strdom.norm(strdom.SStr(segs))
                    tm = Opaque('t')
                    ai.check_data_calls = []
                    outs_h = ai.explore(lambda: ai.call_function(fh, [ClassRef(cls), text], {'time': tm}))
                    ai.check_data_calls = []
                    outs_b = ai.explore(lambda: ai.call_function(fb, [ClassRef(cls), AList(list(shape), 'bytearray')], {'time': tm}))
                    a, b = norm(outs_h), norm(outs_b)
                    lab = f'{first:#04x} + {ndata} data ({dl}){" + F7" if shape[-1] == 0xf7 and len(shape) > 1 and first == 0xf0 else ""}'
                    ctx.require(a == b, 'R02.7', f'from_hex({lab})', w,
                                f'from_hex gives {sorted(a)[:3]} where from_bytes on the same bytes gives {sorted(b)[:3]}',
                                construct=f'{fh.qname}::agrees-with-from_bytes')
    # separators and whitespace
    for sep, text, label in ((None, '90\t3C\n40', 'tab and newline between pairs'), (':', '90:3C:40', "sep=':'"), ('--', '90--3C--40', "sep='--'")):
        n += 1
        kw = {'time': 5}
        if sep is not None:
            kw['sep'] = sep
        outs = ai.explore(lambda: ai.call_function(fh, [ClassRef(cls), text], dict(kw)))
        ok = len(outs) == 1 and outs[0].kind == 'return' and isinstance(outs[0].value, AObj) and \
            {k: outs[0].value.attrs.get(k) for k in ('type', 'channel', 'note', 'velocity', 'time')} == \
            {'type': 'note_on', 'channel': 0, 'note': 60, 'velocity': 64, 'time': 5}
        ctx.require(ok, 'R02.7', f'from_hex({label})', w, f'{text!r} gives {outs}', construct=f'{fh.qname}::separators')
    for bad, label in (('9', 'odd digit'), ('90 3C 4', 'trailing single digit'), ('90 3G 40', 'non-hex digit'), ('', 'empty text')):
        n += 1
        outs = ai.explore(lambda: ai.call_function(fh, [ClassRef(cls), bad], {}))
        ctx.require(bool(outs) and all(o.kind == 'raise' and o.exc == 'ValueError' for o in outs), 'R02.7', f'from_hex({label})', w,
                    f'{bad!r} gives {outs}; expected ValueError', construct=f'{fh.qname}::malformed-text')
    # malformed text WITH a separator: items that are not two hex digits must not be glued together across the separator
    for bad, sep, label in (('F-8', '-', 'single digits around the separator'), ('9-03-C4-0', '-', 'digits split wrongly, four items'),
                            ('90-3C-4-0', '-', 'two single digits at the end'), ('F0 | 0 | 1F | 7', ' | ', 'single digits, long separator'),
                            ('9:0', ':', 'one digit each side')):
        n += 1
        outs = ai.explore(lambda: ai.call_function(fh, [ClassRef(cls), bad], {'sep': sep}))
        ctx.require(bool(outs) and all(o.kind == 'raise' and o.exc == 'ValueError' for o in outs), 'R02.7', f'from_hex({label}, sep={sep!r})', w,
                    f'{bad!r} with sep={sep!r} gives {outs}; every item must be two hex digits - expected ValueError', construct=f'{fh.qname}::malformed-text-sep')
    ctx.floor('R02.7', n, 100)
    for q in ai.inlined:
        ctx.functions.add(q)


def r02_8(ctx):
    """Items that are not integers, and containers that are sequences (or, as the docstring promises, iterables) but not lists:
    a float / str / None in ANY position - the status byte and the sysex end byte included - is a TypeError, never a message
    (248.0 == 248 finds the clock spec in a dict); a deque or an iterator of integers behaves like the list with the same items."""
    fn_cd, item_fn, item_dom = codec.data_byte_domain(ctx)
    cls = ctx.p.cls(MSG, 'Message')
    fb = ctx.fn(ctx.p.func(MSG, 'Message.from_bytes'))
    dec = ctx.fn(ctx.p.func(codec.DEC_MOD, 'decode_message'))
    ai = _interp(ctx, item_dom)
    w = ctx.where(dec)
    n = 0
    d = smf_sym('d', 127)
    bad_items = [([248.0], 'a float equal to a real-time status byte'), ([144.0, d, d], 'a float equal to a channel status byte'),
                 ([240.0, d, 247], 'a float equal to the sysex start byte'), ([240, d, 247.0], 'a float equal to the sysex end byte'),
                 ([242.0, d, d], 'a float equal to the song position status'), (['a'], 'a string as status byte'), ([None], 'None as status byte'),
                 ([143.5, d, d], 'a non-integral float as status byte'), ([240, d, 'x'], 'a string as sysex end byte')]
    # a first item that is an integer but no byte: a negative number, or one beyond 255, never stands for the status byte it
    # happens to be congruent to
    for shape, label in (([-112, d, d], '-112 (= 0x90 - 256) as first item'), ([-1], '-1 as first item'), ([-64, d], '-64 as first item'),
                         ([0x190, d, d], '0x190 as first item'), ([-8], '-8 (= 0xf8 - 256) as first item')):
        n += 1
        outs = _outcomes(ctx, ai, fb, cls, shape)
        ok = bool(outs) and all(o.kind == 'raise' and o.exc == 'ValueError' for o in outs)
        ctx.require(ok, 'R02.8', f'from_bytes({label})', w, f'{shape!r} gives {outs}; a first item outside 0..255 is no status byte: ValueError',
                    construct=f'{dec.qname}::first-item-range')
    for shape, label in bad_items:
        n += 1
        outs = _outcomes(ctx, ai, fb, cls, shape)
        ok = bool(outs) and all(o.kind == 'raise' and o.exc == 'TypeError' for o in outs)
        ctx.require(ok, 'R02.8', f'from_bytes({label})', w, f'{shape!r} gives {outs}; an item that is not an integer must raise TypeError',
                    construct=f'{dec.qname}::non-integer-item')
    n1, v1 = smf_sym('n1', 127), smf_sym('v1', 127)
    # (an array holds integers like a list does; its items may be wider than a byte, its buffer is not its items)
    for kind in ('deque', 'iterator', 'tuple', 'array'):
        for shape, label, want in (([0x93, n1, v1], 'a note_on', 'return'), ([0xf8], 'a clock', 'return'), ([0xf0, n1, v1, 0xf7], 'a sysex', 'return'),
                                   ([0x93, n1], 'a truncated note_on', 'ValueError'), ([], 'nothing', 'ValueError')):
            n += 1
            tm = Opaque('t')
            ai.check_data_calls = []
            outs = ai.explore(lambda: ai.call_function(fb, [ClassRef(cls), AList(list(shape), kind)], {'time': tm}))
            ref = ai.explore(lambda: ai.call_function(fb, [ClassRef(cls), AList(list(shape), 'list')], {'time': tm}))

            def norm(os_):
                return sorted((o.kind, repr(sorted((k, repr(x)) for k, x in o.value.attrs.items())) if o.kind == 'return' and isinstance(o.value, AObj)
                               else o.exc) for o in os_)
            ok = norm(outs) == norm(ref) and all((o.kind == 'return') == (want == 'return') and (o.kind == 'return' or o.exc == want) for o in outs)
            ctx.require(ok, 'R02.8', f'from_bytes({kind} holding {label})', w,
                        f'a {kind} holding {label} gives {outs}; the list with the same items gives {ref}',
                        construct=f'{dec.qname}::container({kind})')
    ctx.floor('R02.8', n, 20)
    for q in ai.inlined:
        ctx.functions.add(q)


def r02_input_untouched(ctx):
    """Decoding reads its input and leaves it alone: whatever the call does (return a message, refuse), the caller's list,
    bytearray or deque holds the same items afterwards - a decoder that pops the status byte off the caller's buffer returns the
    right message once, and the buffer (the encoding the caller still holds) decodes to something else the next time."""
    fn_cd, item_fn, item_dom = codec.data_byte_domain(ctx)
    cls = ctx.p.cls(MSG, 'Message')
    fb = ctx.fn(ctx.p.func(MSG, 'Message.from_bytes'))
    dec = ctx.fn(ctx.p.func(codec.DEC_MOD, 'decode_message'))
    ai = _interp(ctx, item_dom)
    w = ctx.where(dec)
    n = 0
    n1, v1 = smf_sym('n1', 127), smf_sym('v1', 127)
    for kind in ('list', 'bytearray', 'deque'):
        for shape, label in (([0x93, n1, v1], 'a note_on'), ([0xf8], 'a clock'), ([0xf0, n1, v1, 0xf7], 'a sysex'), ([0xe2, n1, v1], 'a pitchwheel'),
                             ([0x93, n1], 'a truncated note_on'), ([0x93, 200, v1], 'a note_on with a data byte of 200'), ([0xf0, n1, v1], 'an unterminated sysex')):
            n += 1
            bufs = []

            def thunk():
                buf = AList(list(shape), kind)
                bufs.append(buf)
                ai.check_data_calls = []
                return ai.call_function(fb, [ClassRef(cls), buf], {'time': Opaque('t')})
            outs = ai.explore(thunk)
            same = bool(bufs) and all(len(b.items) == len(shape) and all(x is y or (type(x) is type(y) and not hasattr(x, 'name') and x == y)
                                                                        for x, y in zip(b.items, shape)) for b in bufs)
            ctx.require(same, 'R02.10', f'from_bytes({kind} holding {label}).input', w,
                        f'after the call the caller\'s {kind} holds {[b.items for b in bufs if b.items != shape][:1]}, it held {shape}: decoding consumes or '
                        f'edits the sequence it was given (outcomes: {outs})', construct=f'{dec.qname}::input-modified')
    ctx.floor('R02.10', n, 21)
    for q in ai.inlined:
        ctx.functions.add(q)


def r02_fresh_encoding(ctx):
    """What bytes() returns is the caller's: a new list every time, for every type - never a list that is also kept somewhere
    (a table of ready-made encodings, a cache): the caller may extend or clear what it got, and the next message of that type
    must still encode to its own bytes."""
    doms = codec.attr_domains(ctx)
    syms = codec.attr_syms(doms)
    enc = ctx.fn(ctx.p.func(codec.ENC_MOD, 'encode_message'))
    ai = codec.make_interp(ctx)
    w = ctx.where(enc)
    n = 0
    for row in codec.specs(ctx):
        t = row['type']
        if any(nm != 'data' and nm not in syms for nm in row['value_names']):
            continue
        n += 1

        def thunk():
            a = ai.call_function(enc, [codec.msg_dict(t, row['value_names'], syms)], {})
            b = ai.call_function(enc, [codec.msg_dict(t, row['value_names'], syms)], {})
            # (judged here: the values an outcome carries are snapshots)
            return a is b or (isinstance(a, AList) and isinstance(b, AList) and a.items is b.items)
        outs = ai.explore(thunk)
        ok = bool(outs) and all(o.kind == 'return' for o in outs)
        shared = any(o.kind == 'return' and o.value is not False for o in outs)
        ctx.require(ok and not shared, 'R02.11', f'encode({t}) twice', w,
                    f'two encodings of {t} messages are {"one and the same list object" if shared else outs}: what one caller does to its list '
                    'shows in every later encoding', construct=f'{enc.qname}::shared-result')
    ctx.floor('R02.11', n, 18)
    for q in ai.inlined:
        ctx.functions.add(q)


def r02_encoder(ctx):
    """bytes() of the message from_bytes returns reproduces the input exactly: the encoder layout is the inverse of the decoder
    layout, bit for bit (encoder bodies shared with C01 R01.2; the decoder side is R01.3)."""
    from . import c01
    ctx.borrow(c01.r01_2, 'R02.9')
    ctx.borrow(c01.r01_3, 'R02.9')


RULES = [('R02.11', r02_fresh_encoding), ('R02.10', r02_input_untouched), ('R02.9', r02_encoder), ('R02.1', r02_1), ('R02.4', r02_4), ('R02.5', r02_5), ('R02.7', r02_7), ('R02.8', r02_8)]
