"""C17 - text encoding follows the file charset and never leaks out of a call."""
from __future__ import annotations

import ast

from .. import astq, reference, smf, wire
from ..model import AnalysisError, FuncInfo, unparse
from ..paths import enumerate_paths

LEVEL = 'other'
EXPLANATION = (
    'Scoping is decided on the shape of the code.  (R17.1) every @contextmanager generator in the package that assigns a module '
    'global before its yield is path-enumerated: on every path through the yield - normal completion and the exception path out '
    'of the yield alike - the restoring assignment of the saved value is executed afterwards (i.e. it sits in a finally that '
    'covers the yield).  (R17.2) single writer: the only stores to meta._charset anywhere in mido/ are inside meta_charset; '
    'its initial value and the default of MidiFile(charset=) fold to latin1.  (R17.3) in MidiFile._load/_save every call that '
    'can reach encode_string/decode_string through the call graph is lexically inside `with meta_charset(self.charset)`, and '
    'nothing that can reach them is called from MidiFile outside such a block.  (R17.4) encode_string/decode_string read the '
    'global at call time (a Name load in the body, not a default argument), encode with .encode(_charset)/.decode(_charset), '
    'and all 8 text-carrying MetaSpec classes encode and decode through them (no literal codec).  That the bytes in the file '
    'are the text encoded in the charset then follows from C07/C09 (payload = encode_string(text)).')
TRUSTED = ['midolint path enumeration (try/finally, yield as a raise point) and call graph over resolved callees',
           'contextlib.contextmanager semantics: an exception in the with body is raised at the yield']
ASSUMPTIONS = ['whether a given text is encodable in a given charset is codec behaviour, not decided',
               'threads: the charset is process-global by design; concurrent loads with different charsets are outside the property']

META = wire.META_MOD
MF = smf.MF


def global_stores(fn: FuncInfo):
    """names declared global and assigned in fn"""
    gl = set()
    for n in astq.walk_shallow(fn.node):
        if isinstance(n, ast.Global):
            gl.update(n.names)
    out = []
    for t, st in astq.stores_in(fn.node):
        if isinstance(t, ast.Name) and t.id in gl:
            out.append((t.id, st))
    return out


def r17_1(ctx):
    n = 0
    for fn in ctx.p.all_functions():
        if not astq.has_decorator(fn.node, 'contextmanager'):
            continue
        gs = global_stores(fn)
        if not gs:
            continue
        ctx.fn(fn)
        n += 1
        paths = enumerate_paths(fn.node)
        ctx.paths += len(paths)
        w = ctx.where(fn)
        for gname in sorted({g for g, _ in gs}):
            # the saved value: a local assigned from the global before the first store
            saved = None
            for t, st in astq.stores_in(fn.node):
                if isinstance(t, ast.Name) and isinstance(st, ast.Assign) and isinstance(st.value, ast.Name) and st.value.id == gname:
                    saved = t.id
                    break
            ok = saved is not None
            why = f'{fn.name} does not save the previous value of {gname}'
            through_yield = 0
            if ok:
                for p in paths:
                    idx = [i for i, e in enumerate(p.events) if e.kind in ('stmt', 'partial') and any(isinstance(x, ast.Yield) for x in ast.walk(e.node))]
                    if not idx:
                        continue
                    through_yield += 1
                    after = p.events[idx[-1] + 1:]
                    restored = any(e.kind == 'stmt' and isinstance(e.node, ast.Assign) and any(isinstance(t, ast.Name) and t.id == gname for t in e.node.targets)
                                   and isinstance(e.node.value, ast.Name) and e.node.value.id == saved for e in after)
                    if not restored:
                        ok = False
                        kind = 'the body raises' if p.events[idx[-1]].kind == 'partial' else 'the body completes'
                        why = (f'on the path where {kind}, {gname} is not restored to the saved value after the yield '
                               f'(path ends with {p.status}): the temporary value stays in force for the rest of the process')
                        break
                if ok and through_yield < 2:
                    ok = False
                    why = (f'the yield is not inside a try/finally: when the with-body raises (failed load or save), the exception leaves the '
                           f'generator at the yield and {gname} keeps the temporary value for the rest of the process')
            ctx.require(ok, 'R17.1', f'{fn.name}.restore({gname})', w, why, construct=f'{fn.qname}::restore({gname})')
    ctx.floor('R17.1', n, 1)


def r17_2(ctx):
    m = ctx.p.module(META)
    n = 0
    for fn in ctx.p.all_functions():
        for g, st in global_stores(fn):
            if g == '_charset' and fn.module.name == META:
                n += 1
                ctx.require(fn.name == 'meta_charset', 'R17.2', f'writer({fn.name})', ctx.where(fn, st),
                            f'{fn.name} assigns the process-wide charset outside the scoped override', construct=f'{fn.qname}::writes(_charset)')
        for t, st in astq.stores_in(fn.node):
            if isinstance(t, ast.Attribute) and t.attr == '_charset':
                n += 1
                ctx.fail('R17.2', f'writer({fn.name})', ctx.where(fn, st), f'{unparse(st)[:60]} rebinds the charset from outside',
                         construct=f'{fn.qname}::writes(_charset)')
    for mod in ctx.p.modules.values():
        for st in mod.tree.body:
            if isinstance(st, ast.Assign):
                for t in st.targets:
                    if isinstance(t, ast.Attribute) and t.attr == '_charset':
                        ctx.fail('R17.2', f'writer({mod.name})', f'{mod.relpath}:{st.lineno}', 'module level rebind of the charset',
                                 construct=f'{mod.relpath}::writes(_charset)')
    ctx.floor('R17.2', n, 2)
    init = ctx.f.table(META, '_charset')
    ctx.require(init == 'latin1', 'R17.2', '_charset.initial', f'{m.relpath}:1 _charset', f'initial charset is {init!r}, documented default latin1',
                construct=f'{m.relpath}::_charset')
    cls = ctx.p.cls(MF, 'MidiFile')
    fi = cls.methods['__init__']
    a = fi.node.args
    dflt = None
    for pa, d in zip(a.args[-len(a.defaults):], a.defaults):
        if pa.arg == 'charset':
            dflt = astq.const_value(d)
    ctx.require(dflt == 'latin1', 'R17.2', 'MidiFile.charset.default', ctx.where(fi), f'default charset is {dflt!r}', construct=f'{fi.qname}::charset-default')
    st = [s for t, s in astq.stores_in(fi.node) if unparse(t) == 'self.charset']
    ctx.require(len(st) == 1 and unparse(st[0].value) == 'charset', 'R17.2', 'MidiFile.charset.stored', ctx.where(fi),
                'the charset argument is not stored', construct=f'{fi.qname}::charset-stored')


def reaches_codec(ctx, fn: FuncInfo, seen=None, depth=0):
    """Can fn reach encode_string/decode_string through resolved calls (incl. methods named bytes/encode/decode)?"""
    seen = seen if seen is not None else {}
    if fn.qname in seen:
        return seen[fn.qname]
    seen[fn.qname] = False
    if fn.qname in (f'mido/midifiles/meta.py::encode_string', 'mido/midifiles/meta.py::decode_string'):
        seen[fn.qname] = True
        return True
    res = False
    for c in astq.calls(fn.node):
        r = astq.resolve_callee(ctx.p, fn, c)
        targets = []
        if isinstance(r, FuncInfo):
            targets.append(r)
        elif hasattr(r, 'methods'):
            init = r.methods.get('__init__')
            if init:
                targets.append(init)
        elif isinstance(c.func, ast.Attribute) and c.func.attr in ('bytes', 'encode', 'decode', 'bin', 'hex') and fn.module.name.startswith('mido.midifiles'):
            # dynamic dispatch on messages / specs: any method of that name in meta.py
            mm = ctx.p.module(META)
            for k in mm.classes.values():
                if c.func.attr in k.methods:
                    targets.append(k.methods[c.func.attr])
        for t in targets:
            if depth < 8 and reaches_codec(ctx, t, seen, depth + 1):
                res = True
    seen[fn.qname] = res
    return res


def r17_3(ctx):
    cls = ctx.p.cls(MF, 'MidiFile')
    seen = {}
    n = 0
    for name, fn in cls.methods.items():
        ctx.fn(fn)
        withs = [x for x in astq.walk_shallow(fn.node) if isinstance(x, ast.With) and any(
            isinstance(i.context_expr, ast.Call) and astq.callee_qname(ctx.p, fn, i.context_expr) == 'mido/midifiles/meta.py::meta_charset'
            for i in x.items)]
        for wnode in withs:
            for i in wnode.items:
                if isinstance(i.context_expr, ast.Call) and astq.callee_qname(ctx.p, fn, i.context_expr) == 'mido/midifiles/meta.py::meta_charset':
                    arg = i.context_expr.args[0] if i.context_expr.args else None
                    ctx.require(arg is not None and unparse(arg) == 'self.charset', 'R17.3', f'{name}.with-arg', ctx.where(fn, wnode),
                                'meta_charset is not entered with self.charset', construct=f'{fn.qname}::with-arg')
        for c in astq.calls(fn.node):
            r = astq.resolve_callee(ctx.p, fn, c)
            if isinstance(r, FuncInfo) and r.cls is None and reaches_codec(ctx, r, seen):
                n += 1
                ctx.call_sites += 1
                inside = any(astq.contains_node(wn, c) for wn in withs)
                ctx.require(inside, 'R17.3', f'{name}->{r.name}@{c.lineno}', ctx.where(fn, c),
                            f'{r.name}() encodes/decodes meta text but is called outside `with meta_charset(self.charset)`: the file charset is not applied',
                            construct=f'{fn.qname}::{r.name}::outside-charset-scope')
    ctx.floor('R17.3', n, 2)


def r17_4(ctx):
    m = ctx.p.module(META)
    for fname, meth in (('encode_string', 'encode'), ('decode_string', 'decode')):
        fn = ctx.fn(ctx.p.func(META, fname))
        w = ctx.where(fn)
        a = fn.node.args
        dflt_uses = any('_charset' in unparse(d) for d in list(a.defaults) + [k for k in a.kw_defaults if k is not None])
        ctx.require(not dflt_uses, 'R17.4', f'{fname}.late-binding', w, 'the charset is captured as a default argument at import time',
                    construct=f'{fn.qname}::default-arg')
        calls = [c for c in astq.calls(fn.node) if isinstance(c.func, ast.Attribute) and c.func.attr == meth]
        ok = len(calls) == 1 and len(calls[0].args) == 1 and isinstance(calls[0].args[0], ast.Name) and calls[0].args[0].id == '_charset' \
            and not calls[0].keywords
        ctx.require(ok, 'R17.4', f'{fname}.codec', w, f'{fname} does not {meth} with the current _charset (strictly, no error handler)',
                    construct=f'{fn.qname}::codec')
        if ok:
            recv = calls[0].func.value
            if fname == 'encode_string':
                good = isinstance(recv, ast.Name) and recv.id == fn.params()[0]
            else:
                good = unparse(recv) in (f'bytearray({fn.params()[0]})', f'bytes({fn.params()[0]})')
            ctx.require(good, 'R17.4', f'{fname}.operand', w, f'{fname} applies the codec to {unparse(recv)}', construct=f'{fn.qname}::operand')
        # _charset resolves to the module global (not shadowed)
        local = {t.id for t, _ in astq.stores_in(fn.node) if isinstance(t, ast.Name)} | set(fn.params())
        ctx.require('_charset' not in local, 'R17.4', f'{fname}.global', w, '_charset is a local name here', construct=f'{fn.qname}::shadow')
    reg = wire.meta_registry(ctx)
    n = 0
    for t in reference.TEXT_META:
        c = reg.get(t)
        if c is None:
            continue
        attr = reference.META_SPECS[t][1][0]
        for meth, helper in (('encode', 'encode_string'), ('decode', 'decode_string')):
            o, fn = ctx.p.lookup_method(c, meth)
            if fn is None:
                ctx.fail('R17.4', f'{t}.{meth}', f'{m.relpath}:{c.node.lineno} {c.name}', f'no {meth}', construct=f'{c.qname}::{meth}')
                continue
            ctx.fn(fn)
            n += 1
            cs = [x for x in astq.calls(fn.node) if astq.callee_qname(ctx.p, fn, x) == f'mido/midifiles/meta.py::{helper}']
            lit = [x for x in astq.calls(fn.node) if isinstance(x.func, ast.Attribute) and x.func.attr in ('encode', 'decode')]
            uses_attr = f'message.{attr}' in unparse(fn.node)
            ctx.require(len(cs) == 1 and not lit and uses_attr, 'R17.4', f'{t}.{meth}', ctx.where(fn),
                        f'{c.name}.{meth} does not go through {helper}() for attribute {attr!r} (a literal codec would ignore the file charset)',
                        construct=f'{c.qname}::{meth}::helper')
    ctx.floor('R17.4-text-specs', n, 16)


RULES = [('R17.1', r17_1), ('R17.2', r17_2), ('R17.3', r17_3), ('R17.4', r17_4)]
