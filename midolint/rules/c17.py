"""C17 - text encoding follows the file charset and never leaks out of a call."""
from __future__ import annotations

import ast

from .. import astq, reference, smf, wire
from ..absint import AbsRaise, AList, AObj, EVENT_LOG, Opaque, SeqVar, assuming, only_length_splits, same_ending_length_splits
from ..fold import ClassRef
from ..model import AnalysisError, ClassInfo, FuncInfo, unparse
from ..wire import AFile, Field, StrSym, VLQ

LEVEL = 'other'
EXPLANATION = (
    'Scoping is decided by abstract interpretation with a faithful model of `with <@contextmanager generator>`: the generator body '
    'runs up to its yield, the with-body runs AT the yield (so an exception of the body is raised there, inside whatever '
    'try/finally the generator has), then the rest of the generator runs; assignments through a `global` declaration go to a '
    'store that survives the call.  MidiFile._load and _save are interpreted with charset X on files that succeed and on files that '
    'fail at every kind of point the property names (truncated header, truncated track, EOF inside an event, invalid data byte, '
    'undecodable text, n-th message with a non-integer / negative time, unencodable text): (R17.1) after the call - returned or '
    'raised - the process-wide charset is latin1 again; (R17.3) every encode_string/decode_string that happened during the call saw '
    'charset X; and a text meta message encoded right after the call sees latin1.  (R17.2) the only functions that assign the global are '
    'meta_charset and helpers reachable only from it; initial value and the MidiFile default fold to latin1.  (R17.4) '
    'encode_string/decode_string, interpreted un-summarised, apply exactly .encode(<charset in force at call time>) / '
    'bytearray(data).decode(<same>) with no error handler and nothing else (late binding is tested by changing the stored global '
    'between two calls); decorators that could cache are rejected by the interpreter.  That the 8 text meta types go through the '
    'helpers and that file bytes = encoded text is established by the abstract save/load of C07/C09 on symbolic text.')
TRUSTED = ['midolint abstract interpreter (contextmanager model, global store)', 'contextlib.contextmanager semantics',
           'C07/C09 for the wiring of text meta types to the helpers']
ASSUMPTIONS = ['whether a given text is encodable in a given charset is codec behaviour, not decided',
               'threads: the charset is process-global by design; concurrent loads with different charsets are outside the property']

META = wire.META_MOD
MF = smf.MF
KEY = (META, '_charset')


class CodecFail:
    """A symbolic text / payload on which the codec raises."""
    py_type = 'str'

    def __init__(self, exc):
        self.exc = exc


def make_interp(ctx):
    ai = smf.make_interp(ctx)
    base_enc = ai.summaries['mido/midifiles/meta.py::encode_string']
    base_dec = ai.summaries['mido/midifiles/meta.py::decode_string']

    def enc(interp, args, kwargs, node):
        r = base_enc(interp, args, kwargs, node)
        if isinstance(args[0], CodecFail):
            raise AbsRaise(args[0].exc, node)
        return r

    def dec(interp, args, kwargs, node):
        r = base_dec(interp, args, kwargs, node)
        v = args[0]
        if isinstance(v, AList) and any(isinstance(x, SeqVar) and getattr(x, 'undecodable', False) for x in v.items):
            raise AbsRaise('UnicodeDecodeError', node)
        return r
    ai.summaries['mido/midifiles/meta.py::encode_string'] = enc
    ai.summaries['mido/midifiles/meta.py::decode_string'] = dec
    return ai


def _mf(ctx, ai, charset, tracks=None):
    cls = ctx.p.cls(MF, 'MidiFile')
    return ai.apply(ClassRef(cls), [], {'type': 1, 'charset': charset, 'tracks': tracks if tracks is not None else AList([], 'list')}, None)


def _header(ntracks=1):
    return [Field('4s', b'MThd'), Field('L', 6), Field('h', 1), Field('h', ntracks), Field('h', 480)]


def load_streams():
    """label -> (stream, expected outcome kind)"""
    T = StrSym('T')
    ok_body = [VLQ(0), 0xff, 0x03, VLQ(wire.size_of([T.bytes])), T.bytes, VLQ(5), 0x90, 60, 64, VLQ(0), 0xff, 0x2f, VLQ(0)]
    bad = SeqVar('enc(bad)', 255)
    bad.undecodable = True
    bad_body = [VLQ(0), 0xff, 0x01, VLQ(wire.size_of([T.bytes])), T.bytes, VLQ(0), 0xff, 0x03, VLQ(wire.size_of([bad])), bad]

    def trk(body, size=None):
        # size=99 stands for "the chunk claims more bytes than the file holds": the claimed length is the bytes present plus
        # a non-empty missing part, so the end-of-chunk test can never be met
        claimed = wire.size_of(body) if size is None else wire.size_of(body + [SeqVar('missing', 255, minlen=1)])
        return [Field('4s', b'MTrk'), Field('L', claimed)] + body
    return {
        'complete file': (_header() + trk(ok_body), 'return'),
        'empty file': ([], 'raise'),
        'truncated after the header': (_header(), 'raise'),
        'truncated inside a text event': (_header() + trk(ok_body[:4], size=99), 'raise'),
        'truncated inside a channel message': (_header() + trk(ok_body[:8], size=99), 'raise'),
        'not a MIDI file': ([Field('4s', b'RIFF'), Field('L', 6)], 'raise'),
        'invalid data byte': (_header() + trk([VLQ(0), 0xff, 0x03, VLQ(wire.size_of([T.bytes])), T.bytes, VLQ(0), 0x90, 200, 64]), 'raise'),
        'undecodable text in the second meta message': (_header() + trk(bad_body), 'raise'),
        'second track missing': (_header(2) + trk(ok_body), 'raise'),
    }


def save_tracks(ctx, ai):
    def text(t, time=0):
        return wire.make_meta(ai, ctx, 'track_name', {'name': t}, time)

    def note(time):
        return wire.make_message(ctx, 'note_on', {'channel': 0, 'note': 60, 'velocity': 64}, time)
    return {
        'complete file': (lambda: [text(StrSym('T')), note(5)], 'return'),
        'non-integer time in the second message': (lambda: [text(StrSym('T')), note(1.5)], 'raise'),
        'negative time in the third message': (lambda: [text(StrSym('T')), note(0), note(-1)], 'raise'),
        'unencodable text in the second message': (lambda: [text(StrSym('T')), text(CodecFail('UnicodeEncodeError'), 3)], 'raise'),
        'real-time message': (lambda: [text(StrSym('T')), wire.make_message(ctx, 'clock', {}, 0)], 'raise'),
    }


def r17_scoping(ctx):
    ai = make_interp(ctx)
    cls = ctx.p.cls(MF, 'MidiFile')
    o, load = ctx.p.lookup_method(cls, '_load')
    o, save = ctx.p.lookup_method(cls, '_save')
    if load is None or save is None:
        raise AnalysisError('MidiFile._load/_save not found')
    ctx.fn(load)
    ctx.fn(save)
    mc, mcw, mcfns = _mc(ctx)
    initial = 'latin1'
    o, mbytes = ctx.p.lookup_method(ctx.p.cls(META, 'MetaMessage'), 'bytes')
    n = 0
    # (the default charset is a charset like any other: a file that says latin1 is written and read as latin1, not as a
    # "compatible" superset chosen on its behalf)
    for charset in ('utf-16', 'shift_jis', 'latin1', 'cp1252'):
        for label, (stream, expect) in load_streams().items():
            n += 1
            holder = {}

            afters = []

            def thunk():
                ai.global_store.pop(KEY, None)
                mf = _mf(ctx, ai, charset)
                _then_observe(ctx, ai, afters, lambda: ai.call_function(load, [mf, AFile(stream=list(stream), name='in')], {}))
                return mf
            outs = ai.explore(thunk)
            _judge(ctx, ai, outs, f'load({label}, charset={charset})', load, mc, charset, afters, expect, mbytes)
        for label, (factory, expect) in save_tracks(ctx, ai).items():
            n += 1

            afters = []

            def thunk_s():
                ai.global_store.pop(KEY, None)
                mf = _mf(ctx, ai, charset, AList([AList(factory(), 'MidiTrack')], 'list'))
                _then_observe(ctx, ai, afters, lambda: ai.call_function(save, [mf, AFile(name='out')], {}))
                return mf
            outs = ai.explore(thunk_s)
            _judge(ctx, ai, outs, f'save({label}, charset={charset})', save, mc, charset, afters, expect, mbytes)
    # the public entry points: save(filename=...) / save(file=...) and MidiFile(filename=...) / MidiFile(file=...) - everything they
    # do to messages (not only the part inside _save/_load) happens under the file's charset
    o, psave = ctx.p.lookup_method(cls, 'save')
    if psave is not None:
        ctx.fn(psave)
        ai.builtin_summaries['open'] = lambda i_, a_, k_, n_: AFile(name=str(a_[0]) if a_ else 'file')
        for charset in ('utf-16',):
            for label, (factory, expect) in save_tracks(ctx, ai).items():
                for how in ('filename', 'file'):
                    n += 1

                    afters = []

                    def thunk_p(how=how, factory=factory):
                        ai.global_store.pop(KEY, None)
                        mf = _mf(ctx, ai, charset, AList([AList(factory(), 'MidiTrack')], 'list'))
                        kw = {'filename': 'out.mid'} if how == 'filename' else {'file': AFile(name='out')}
                        _then_observe(ctx, ai, afters, lambda: ai.call_function(psave, [mf], kw))
                        return mf
                    outs = ai.explore(thunk_p)
                    _judge(ctx, ai, outs, f'MidiFile.save({how}=..., {label}, charset={charset})', psave, mc, charset, afters, expect, mbytes)
    ctx.floor('R17.1', n, 48)
    # nested overrides unwind level by level, also on an exception in the innermost block
    for q in ai.inlined:
        ctx.functions.add(q)


def _then_observe(ctx, ai, afters, call):
    """Make the call; whichever way it ends, note the charset that is in force afterwards (observed through the library's own
    encode_string, so it does not matter where the library keeps the setting)."""
    try:
        r = call()
    except AbsRaise:
        afters.append(wire.charset_in_force(ai, ctx))
        raise
    afters.append(wire.charset_in_force(ai, ctx))
    return r


def _judge(ctx, ai, outs, inst, fn, mc, charset, afters, expect, mbytes):
    w = _mc(ctx)[1]
    cons_leak = f'{mc.qname}::restore::{"after-return" if expect == "return" else "after-exception"}'
    if len(outs) != 1 and not same_ending_length_splits(outs):
        ctx.fail('R17.1', inst, ctx.where(fn), f'the call does not have one outcome: {outs}', construct=f'{fn.qname}::outcomes')
        return
    for oc in outs:
        if oc.kind != expect:
            ctx.fail('R17.1', inst, ctx.where(fn), f'expected the call to {expect}, got {oc}', construct=f'{fn.qname}::outcome-kind')
            return
        wrong_after = [a for a in afters if a != 'latin1']
        ctx.require(bool(afters) and not wrong_after, 'R17.1', f'{inst}.restored', w,
                    f'after the call ({oc.kind}{" " + str(oc.exc) if oc.kind == "raise" else ""}) the process-wide charset is '
                    f'{(wrong_after or ["not observed"])[0]!r}, not latin1: meta text encoded or decoded elsewhere now uses the wrong charset', construct=cons_leak)
        seen = [e[2] for e in oc.log if e[0] == 'codec']
        wrong = [c for c in seen if c != charset]
        ctx.require(not wrong, 'R17.3', f'{inst}.in-force', ctx.where(fn),
                    f'{len(wrong)} of {len(seen)} text encodings/decodings during the call used {sorted(set(map(repr, wrong)))} instead of the file charset {charset!r}',
                    construct=f'{fn.qname}::charset-in-force')
        if expect == 'return':
            ctx.require(bool(seen), 'R17.3', f'{inst}.exercised', ctx.where(fn), 'no text was encoded/decoded: scenario does not exercise the codec',
                        construct=f'{fn.qname}::exercised')
    # an unrelated encode right after the call
    msg_cls = ctx.p.cls(META, 'MetaMessage')
    o2 = ai.explore(lambda: ai.call_function(mbytes, [wire.make_meta(ai, ctx, 'marker', {'text': StrSym('later')}, 0)], {}))
    later = [[e[2] for e in o_.log if e[0] == 'codec'] for o_ in o2]
    ctx.require(bool(later) and all(l_ == ['latin1'] for l_ in later), 'R17.1', f'{inst}.later-encode', w, f'a meta message encoded after the call uses {later}', construct=cons_leak)


def _mc(ctx):
    """The scoped override: a @contextmanager function today; a context manager class of the same name serves as well.
    Returns (anchor with .qname, where-text, the functions that make it up)."""
    m = ctx.p.module(META)
    if 'meta_charset' in m.functions:
        fn = ctx.fn(m.functions['meta_charset'])
        return fn, ctx.where(fn), [fn]
    if 'meta_charset' in m.classes:
        c = m.classes['meta_charset']
        fns = [ctx.fn(f) for f in c.methods.values()]
        return c, f'{m.relpath}:{c.node.lineno} meta_charset', fns
    raise AnalysisError(f'meta_charset not found in {m.relpath}')


def r17_2(ctx):
    m = ctx.p.module(META)
    mc, mcw, mcfns = _mc(ctx)
    # functions reachable only from meta_charset
    helpers = {f.qname for f in mcfns}
    changed = True
    while changed:
        changed = False
        for owner in list(ctx.p.all_functions()):
            if owner.qname not in helpers:
                continue
            for c in astq.calls(owner.node):
                r = astq.resolve_callee(ctx.p, owner, c)
                if isinstance(r, ClassInfo) and r.module.name == META and not all(f.qname in helpers for f in r.methods.values()):
                    # a private class instantiated by the override only (its scope object): its methods are part of the override
                    makers = {f.qname for f in ctx.p.all_functions() for cc in astq.calls(f.node)
                              if astq.resolve_callee(ctx.p, f, cc) is r}
                    if makers <= helpers | {f.qname for f in r.methods.values()}:
                        helpers |= {f.qname for f in r.methods.values()}
                        changed = True
                if isinstance(r, FuncInfo) and r.qname not in helpers and r.module.name == META:
                    callers = {f.qname for f in ctx.p.all_functions() for cc in astq.calls(f.node)
                               if isinstance(astq.resolve_callee(ctx.p, f, cc), FuncInfo) and astq.resolve_callee(ctx.p, f, cc).qname == r.qname}
                    if callers <= helpers:
                        helpers.add(r.qname)
                        changed = True
    # where the library keeps the setting is found by looking: inside `with meta_charset(<marker>)` the marker sits in a module
    # global or in an attribute of a module-level state object.  Whoever writes that cell must be part of the scoped override.
    cell = _charset_cell(ctx)
    n = 0
    if 'global' in cell:
        cmod, cname = cell['global']
        for fn in ctx.p.all_functions():
            gl = set()
            for nd in astq.walk_shallow(fn.node):
                if isinstance(nd, ast.Global):
                    gl.update(nd.names)
            for t, st in astq.stores_in(fn.node):
                if isinstance(t, ast.Name) and t.id == cname and cname in gl and fn.module.name == cmod:
                    n += 1
                    ctx.require(fn.qname in helpers, 'R17.2', f'writer({fn.name})', ctx.where(fn, st),
                                f'{fn.name} assigns the process-wide charset outside the scoped override', construct=f'{fn.qname}::writes(_charset)')
                if isinstance(t, ast.Attribute) and t.attr == cname and not (isinstance(t.value, ast.Name) and t.value.id in ('self', 'cls')):
                    n += 1
                    ctx.fail('R17.2', f'writer({fn.name})', ctx.where(fn, st), f'{unparse(st)[:60]} rebinds the charset from outside',
                             construct=f'{fn.qname}::writes(_charset)')
        for mod in ctx.p.modules.values():
            for st in mod.tree.body:
                if isinstance(st, ast.Assign):
                    for t in st.targets:
                        if isinstance(t, ast.Attribute) and t.attr == cname:
                            ctx.fail('R17.2', f'writer({mod.name})', f'{mod.relpath}:{st.lineno}', 'module level rebind of the charset',
                                     construct=f'{mod.relpath}::writes(_charset)')
    elif 'attr' in cell:
        cmod, gname, obj, attr = cell['attr']
        scls = obj.cls
        state_methods = {f.qname for f in scls.methods.values()} if scls is not None else set()
        writer_methods = set()
        for fn in ctx.p.all_functions():
            aliases = {gname} if fn.module.name == cmod or gname in fn.module.imports else set()
            for t, st in astq.stores_in(fn.node):
                if isinstance(t, ast.Name) and isinstance(st, ast.Assign) and isinstance(st.value, ast.Name) and st.value.id in aliases:
                    aliases.add(t.id)
            for t, st in astq.stores_in(fn.node):
                if not (isinstance(t, ast.Attribute) and t.attr == attr and isinstance(t.value, ast.Name)):
                    continue
                if t.value.id in aliases:
                    n += 1
                    ctx.require(fn.qname in helpers, 'R17.2', f'writer({fn.name})', ctx.where(fn, st),
                                f'{fn.name} assigns the process-wide charset ({gname}.{attr}) outside the scoped override',
                                construct=f'{fn.qname}::writes(_charset)')
                elif t.value.id == 'self' and fn.qname in state_methods and fn.name != '__init__':
                    writer_methods.add(fn.name)
        for mname in sorted(writer_methods):
            # a method of the state object that sets the charset: only the scoped override (and the object itself) may call it
            for fn in ctx.p.all_functions():
                for c in astq.calls(fn.node):
                    if isinstance(c.func, ast.Attribute) and c.func.attr == mname:
                        n += 1
                        ctx.require(fn.qname in helpers or fn.qname in state_methods, 'R17.2', f'writer({fn.name} via {mname})', ctx.where(fn, c),
                                    f'{fn.name} sets the process-wide charset through {mname}() outside the scoped override',
                                    construct=f'{fn.qname}::writes(_charset)')
        for mod in ctx.p.modules.values():
            for st in mod.tree.body:
                if isinstance(st, ast.Assign):
                    for t in st.targets:
                        if isinstance(t, ast.Attribute) and t.attr == attr and isinstance(t.value, ast.Name) and t.value.id == gname:
                            ctx.fail('R17.2', f'writer({mod.name})', f'{mod.relpath}:{st.lineno}', 'module level rebind of the charset',
                                     construct=f'{mod.relpath}::writes(_charset)')
    else:
        ctx.fail('R17.2', 'charset-cell', mcw, 'inside `with meta_charset(x)` the value x is found neither in a module global nor in an attribute of a '
                 'module-level object: where the charset in force is kept cannot be established', construct=f'{mc.qname}::cell')
    ctx.floor('R17.2', n, 1)
    ai0 = make_interp(ctx)
    outs0 = ai0.explore(lambda: wire.charset_in_force(ai0, ctx))
    init = outs0[0].value if len(outs0) == 1 and outs0[0].kind == 'return' else outs0
    ctx.require(init == 'latin1', 'R17.2', '_charset.initial', f'{m.relpath}:1 _charset', f'initial charset is {init!r}, documented default latin1',
                construct=f'{m.relpath}::_charset')
    cls = ctx.p.cls(MF, 'MidiFile')
    ai = make_interp(ctx)
    outs = ai.explore(lambda: ai.apply(ClassRef(cls), [], {}, None))
    ok = len(outs) == 1 and outs[0].kind == 'return' and outs[0].value.attrs.get('charset') == 'latin1'
    ctx.require(ok, 'R17.2', 'MidiFile().charset', f'{cls.module.relpath}:{cls.node.lineno} MidiFile', f'default charset: {outs}',
                construct=f'{cls.qname}::charset-default')
    outs = ai.explore(lambda: ai.apply(ClassRef(cls), [], {'charset': 'cp1252'}, None))
    ok = len(outs) == 1 and outs[0].kind == 'return' and outs[0].value.attrs.get('charset') == 'cp1252'
    ctx.require(ok, 'R17.2', 'MidiFile(charset=).stored', f'{cls.module.relpath}:{cls.node.lineno} MidiFile', f'{outs}', construct=f'{cls.qname}::charset-stored')


def _charset_cell(ctx):
    """Where the charset in force lives: {'global': (module, name)} or {'attr': (module, global name, object, attribute)}."""
    ai = make_interp(ctx)
    found = {}
    marker = '__charset_cell_probe__'

    def body():
        for key, v in ai.global_store.items():
            if v == marker:
                found['global'] = key
        for mn, gn, obj in ctx.f.global_objects():
            for a_, v in obj.attrs.items():
                if isinstance(v, str) and v == marker:
                    found['attr'] = (mn, gn, obj, a_)
        return None
    ai.global_store.pop(KEY, None)
    ai.explore(lambda: wire.with_charset(ai, ctx, marker, body))
    ai.global_store.pop(KEY, None)
    return found


class TextProbe:
    """A text whose .encode(codec, *more) is observed."""
    py_type = 'str'

    def __init__(self):
        self.calls = []

    def absint_hasattr(self, name):
        return name == 'encode'

    def absint_getattr(self, interp, name, node):
        return ('probe-method', self, name)


def r17_4(ctx):
    """The helpers themselves, un-summarised: exactly text.encode(<current charset>) / bytearray(data).decode(<current charset>)."""
    from ..absint import _NO
    ai = smf.make_interp(ctx)
    for q in ('mido/midifiles/meta.py::encode_string', 'mido/midifiles/meta.py::decode_string'):
        ai.summaries.pop(q, None)
    enc = ctx.fn(ctx.p.func(META, 'encode_string'))
    dec = ctx.fn(ctx.p.func(META, 'decode_string'))
    seen = []

    def hook(interp, base, name, args, kwargs, node):
        if isinstance(base, TextProbe) and name == 'encode':
            seen.append(('encode', list(args), dict(kwargs)))
            return AList([SeqVar('encoded', 255)], 'bytes')
        if isinstance(base, AList) and base.kind in ('bytearray', 'bytes') and name == 'decode':
            res = StrSym('decoded')
            seen.append(('decode', list(args), dict(kwargs), list(base.items), res))
            return res
        return _NO
    ai.method_hooks.insert(0, hook)
    for fn, kind in ((enc, 'encode'), (dec, 'decode')):
        w = ctx.where(fn)
        for cs in ('cs-one', 'cs-two'):          # late binding: the global is changed between the calls
            seen.clear()
            payload = AList([SeqVar('payload', 255)], 'list')

            def thunk():
                ai.global_store.pop(KEY, None)
                arg = TextProbe() if kind == 'encode' else payload
                return wire.with_charset(ai, ctx, cs, lambda: ai.call_function(fn, [arg], {}))
            outs = ai.explore(thunk)
            ai.global_store.pop(KEY, None)
            inst = f'{fn.name}(charset in force = {cs})'
            ok = len(outs) == 1 and outs[0].kind == 'return' and len(seen) == 1 and seen[0][0] == kind
            why = f'{fn.name} does not make exactly one .{kind}() call: {outs} / {seen}'
            if ok:
                args, kwargs = seen[0][1], seen[0][2]
                ok = args == [cs] and not kwargs
                why = (f'{fn.name} calls .{kind}({", ".join(map(repr, args))}{", " if kwargs else ""}{kwargs if kwargs else ""}) while the charset in force is {cs!r} '
                       '(must be exactly the current charset, read at call time, without an error handler)')
            ctx.require(ok, 'R17.4', inst, w, why, construct=f'{fn.qname}::codec')
            if ok and kind == 'decode':
                items = seen[0][3]
                ctx.require(len(items) == 1 and items[0] is payload.items[0], 'R17.4', f'{inst}.operand', w,
                            f'the bytes decoded are {items!r}, not exactly the payload', construct=f'{fn.qname}::operand')
                ctx.require(outs[0].value is seen[0][4], 'R17.4', f'{inst}.result', w,
                            f'the result is {outs[0].value!r}, not the decoded text itself (anything done to it afterwards - stripping, '
                            'normalising, caching - changes what a file loads to)', construct=f'{fn.qname}::result')
            if ok and kind == 'encode':
                v = outs[0].value
                ctx.require(isinstance(v, AList) and len(v.items) == 1 and isinstance(v.items[0], SeqVar) and v.items[0].name == 'encoded',
                            'R17.4', f'{inst}.result', w, f'the result is {v!r}, not the list of encoded bytes', construct=f'{fn.qname}::result')
    for q in ai.inlined:
        ctx.functions.add(q)


def r17_borrowed(ctx):
    """Text survives save and load unchanged - also through the less travelled parts of the file code: the writer hands every
    message on exactly once (end_of_track folding, shared with C07 R07.5), and loading with clip=True leaves meta payloads alone
    (shared with C08 R08.5: clipping is for MIDI data bytes; bytes above 127 are what non-ASCII text is made of)."""
    from . import c07, c08
    ctx.borrow(c07.r07_5, 'R17.5')
    ctx.borrow(c08.r08_clip, 'R17.6')
    # the length in front of a text payload is a variable-length quantity: a text of 16384 bytes in the file's charset has the
    # length bytes 81 80 00 (shared with C08 R08.1)
    ctx.borrow(c08.r08_vlq, 'R17.9')


def r17_nested(ctx):
    """Nested overrides unwind level by level."""
    ai = make_interp(ctx)
    mc, mcw, mcfns = _mc(ctx)
    ai.builtin_summaries['__charset_now__'] = lambda i_, a_, k_, n_: wire.charset_in_force(i_, ctx)
    src = ("def probe(fail):\n"
           "    with meta_charset('outer'):\n"
           "        a = __charset_now__()\n"
           "        try:\n"
           "            with meta_charset('inner'):\n"
           "                b = __charset_now__()\n"
           "                if fail:\n"
           "                    raise KeyError('x')\n"
           "        except KeyError:\n"
           "            pass\n"
           "        c = __charset_now__()\n"
           "    return a, b, c, __charset_now__()\n")
    tree = ast.parse(src)
    fn_node = tree.body[0]
    m = ctx.p.module(META)
    from ..model import FuncInfo as FI, add_parents
    add_parents(tree)
    probe = FI('probe', m, fn_node)
    for fail in (False, True):
        def thunk():
            ai.global_store.pop(KEY, None)
            return ai.call_function(probe, [fail], {})
        outs = ai.explore(thunk)
        ok = len(outs) == 1 and outs[0].kind == 'return' and (tuple(outs[0].value.items) if isinstance(outs[0].value, AList) else outs[0].value) == ('outer', 'inner', 'outer', 'latin1')
        ctx.require(ok, 'R17.1', f'nested(meta_charset, inner block {"raises" if fail else "completes"})', mcw,
                    f'charset seen outer/inner/after-inner/after-outer: {outs}; expected outer, inner, outer, latin1',
                    construct=f'{mc.qname}::nested::{"exception" if fail else "normal"}')


def r17_text_specs(ctx):
    """Every text meta type goes through the two helpers, in both directions and under the charset in force: bytes() makes
    exactly one encode_string call on the text and emits its result as the payload; build_meta_message makes exactly one
    decode_string call on the payload and stores its result - no codec call of its own, no sniffing, no post-processing."""
    ai = make_interp(ctx)
    cls = ctx.p.cls(META, 'MetaMessage')
    o, mbytes = ctx.p.lookup_method(cls, 'bytes')
    bm = ctx.fn(ctx.p.func(META, 'build_meta_message'))
    reg = wire.meta_registry(ctx)
    n = 0
    for type_ in sorted(reference.TEXT_META):
        attr = reference.META_SPECS[type_][1][0]
        tb = reference.META_SPECS[type_][0]
        spec = reg.get(type_)
        w = f'{spec.module.relpath}:{spec.node.lineno} {spec.name}' if spec is not None else ctx.where(bm)
        for charset in ('latin1', 'utf-16'):
            n += 1
            T = StrSym('T')
            holder = {}

            def body():
                m = wire.make_meta(ai, ctx, type_, {attr: T}, 0)
                enc = ai.call_function(mbytes, [m], {})
                holder['n_enc'] = [e for e in EVENT_LOG if e[0] == 'codec']
                dec = ai.call_function(bm, [tb, AList([T.bytes], 'list'), 0], {})
                holder['all'] = [e for e in EVENT_LOG if e[0] == 'codec']
                return AList([enc, dec, holder['n_enc'], holder['all']], 'tuple')

            def thunk():
                ai.global_store.pop(KEY, None)
                r = wire.with_charset(ai, ctx, charset, body)
                return tuple(r.items) if isinstance(r, AList) else r
            outs = ai.explore(thunk)
            ai.global_store.pop(KEY, None)
            inst = f'{type_} under {charset}'
            cons = f'{spec.qname if spec is not None else bm.qname}::text-wiring'
            if not only_length_splits(outs):
                ctx.fail('R17.3', inst, w, f'encoding then decoding a text message does not complete on one path: {outs}', construct=cons)
                continue
            for o_t in outs:
              with assuming(o_t):
                enc, dec, ev_enc, ev_all = o_t.value
                ok = len(ev_enc) == 1 and ev_enc[0][1] == 'encode' and ev_enc[0][2] == charset and isinstance(enc, AList) \
                    and len(enc.items) >= 4 and enc.items[3:] == [T.bytes] and enc.items[0] == 0xff and enc.items[1] == tb \
                    and wire.item_equal(enc.items[2], wire.VLQ(wire.size_of(enc.items[3:])))
                ctx.require(ok, 'R17.3', f'encode({inst})', w,
                            f'bytes() of a {type_} message makes codec calls {[(e[1], e[2]) for e in ev_enc]} and emits payload '
                            f'{enc.items[3:] if isinstance(enc, AList) else enc!r}; expected FF {tb:02X} <length of the payload as a variable length quantity> and one encode_string call under {charset!r} whose result is the payload',
                            construct=cons + '::encode')
                ev_dec = ev_all[len(ev_enc):]
                got = dec.attrs.get(attr) if isinstance(dec, AObj) else None
                ok = len(ev_dec) == 1 and ev_dec[0][1] == 'decode' and ev_dec[0][2] == charset and got is T
                ctx.require(ok, 'R17.3', f'decode({inst})', w,
                            f'decoding the payload makes codec calls {[(e[1], e[2]) for e in ev_dec]} and stores {got!r}; expected one decode_string call under '
                            f'{charset!r} whose result is stored unchanged', construct=cons + '::decode')
    ctx.floor('R17.3-text-specs', n, 16)
    for q in ai.inlined:
        ctx.functions.add(q)


def r17_faults(ctx):
    """Fault injection inside the context manager: every library call meta_charset itself makes (there is none today) is made
    to raise in turn; the override must not survive the failed `with` statement.  Catches work placed between the assignment
    of the global and the try/finally that restores it."""
    ai = make_interp(ctx)
    mc, mcw, mcfns = _mc(ctx)
    ai.builtin_summaries['__charset_now__'] = lambda i_, a_, k_, n_: wire.charset_in_force(i_, ctx)
    src = ("def probe():\n"
           "    with meta_charset('utf-16'):\n"
           "        pass\n"
           "    return __charset_now__()\n")
    tree = ast.parse(src)
    from ..model import FuncInfo as FI, add_parents
    add_parents(tree)
    probe = FI('probe', ctx.p.module(META), tree.body[0])

    def run(k):
        seen_after = []

        def thunk():
            ai.global_store.pop(KEY, None)
            ai.ext_calls = 0
            ai.ext_call_names = []
            ai.inject_fault_at = k
            try:
                return ai.call_function(probe, [], {})
            finally:
                ai.inject_fault_at = None
                names_ = list(ai.ext_call_names)
                seen_after.append(wire.charset_in_force(ai, ctx))
                ai.ext_call_names = names_
        outs = ai.explore(thunk)
        bad = [a for a in seen_after if a != 'latin1']
        return outs, list(getattr(ai, 'ext_call_names', [])), (bad[0] if bad else 'latin1')
    outs, names, after = run(None)
    ok = len(outs) == 1 and outs[0].kind == 'return' and outs[0].value == 'latin1'
    ctx.require(ok, 'R17.1', 'with meta_charset(X): pass', mcw, f'{outs}; charset afterwards must be latin1',
                construct=f'{mc.qname}::plain')
    ctx.extra['library_calls_inside_meta_charset'] = names
    for k in range(1, len(names) + 1):
        outs, _, after = run(k)
        raised = bool(outs) and all(o.kind == 'raise' for o in outs)
        ctx.require(raised and after == 'latin1', 'R17.1', f'fault in call #{k} ({names[k - 1]}) inside meta_charset', mcw,
                    f'when {names[k - 1]}() raises inside meta_charset the outcome is {outs} and the charset in force afterwards is {after!r} '
                    '(the override leaks out of the failed call)', construct=f'{mc.qname}::fault::{names[k - 1]}')
    ai.global_store.pop(KEY, None)


def r17_with_statement(ctx):
    """The file's charset is in force for the duration of a load or save call - not for as long as somebody holds the file: a
    MidiFile used as a context manager (`with MidiFile(..., charset=X) as mid:`) leaves the process-wide charset alone inside the
    block and after it, also when two files are entered and left in the other order."""
    ai = make_interp(ctx)
    cls = ctx.p.cls(MF, 'MidiFile')
    if ctx.p.lookup_method(cls, '__enter__')[1] is None:
        ctx.floor('R17.8', 1, 1)
        return
    ai.builtin_summaries['__charset_now__'] = lambda i_, a_, k_, n_: wire.charset_in_force(i_, ctx)
    src = ("def probe(a, b):\n"
           "    seen = []\n"
           "    with a as x:\n"
           "        seen.append(__charset_now__())\n"
           "    seen.append(__charset_now__())\n"
           "    a.__enter__()\n"
           "    b.__enter__()\n"
           "    seen.append(__charset_now__())\n"
           "    a.__exit__(None, None, None)\n"
           "    b.__exit__(None, None, None)\n"
           "    seen.append(__charset_now__())\n"
           "    return seen\n")
    tree = ast.parse(src)
    from ..model import FuncInfo as FI, add_parents
    add_parents(tree)
    probe = FI('probe', ctx.p.module(MF), tree.body[0])

    def thunk():
        ai.global_store.pop(KEY, None)
        return ai.call_function(probe, [_mf(ctx, ai, 'utf-16'), _mf(ctx, ai, 'shift_jis')], {})
    outs = ai.explore(thunk)
    got = list(outs[0].value.items) if len(outs) == 1 and outs[0].kind == 'return' and isinstance(outs[0].value, AList) else None
    o, ent = ctx.p.lookup_method(cls, '__enter__')
    ctx.require(got == ['latin1'] * 4, 'R17.8', 'MidiFile as a context manager', ctx.where(ent),
                f'the charset in force inside `with file:`, after it, with two files entered, and after leaving them oldest first is '
                f'{got if got is not None else outs!r}; expected latin1 every time', construct=f'{ent.qname}::charset-scope')
    ctx.floor('R17.8', 1, 1)
    for q in ai.inlined:
        ctx.functions.add(q)


def r17_payload_reader(ctx):
    """A text of any length comes back whole: read_bytes hands the decoder exactly the announced number of payload bytes, also
    beyond any block size (shared with C09 R09.6)."""
    from . import c09
    ctx.borrow(c09.r09_6, 'R17.7')


RULES = [('R17.8', r17_with_statement), ('R17.7', r17_payload_reader), ('R17-borrowed', r17_borrowed), ('R17-faults', r17_faults), ('R17-text-specs', r17_text_specs), ('R17-scoping', r17_scoping), ('R17-nested', r17_nested), ('R17.2', r17_2), ('R17.4', r17_4)]
