"""C01 - message byte codec round-trips every valid message (DESIGN §3 C01)."""
from __future__ import annotations

import ast

from .. import astq, codec, reference
from ..absint import AbsRaise, ADict, AList, AObj, LenV, Opaque, SeqVar
from ..bits import AV, Sym
from ..fold import ClassRef, FuncRef
from ..intset import IntSet
from ..model import AnalysisError, unparse

LEVEL = 'proof'
EXPLANATION = (
    'Symbolic proof per message type over the whole attribute domain: the check table is folded and '
    'each check function reduced to the integer set it accepts; encode_message and decode_message are '
    'abstractly interpreted in a bit-layout domain (const + sum of single symbolic bits) with the '
    'attributes as symbols ranging over exactly the accepted sets; obligations: status byte, data byte '
    'ranges, layout equal to the MIDI 1.0 reference, decoder(encoder(attrs)) = identity bit for bit, '
    'every data bit consumed exactly once, len(), time pass-through, bin/hex/from_hex agreement.')
TRUSTED = [
    'midolint.fold constant folder (module-level tables only)',
    'midolint.bits transfer functions (+,-,<<,>>,&,|,%,// on bit-field forms)',
    'midolint.absint abstract interpreter for straight-line codec functions',
    'midolint.reference: MIDI 1.0 status/length/bit layout table, docs/message_types.rst domains',
    'bytearray.fromhex / format spec semantics of CPython',
]
ASSUMPTIONS = [
    'attribute values are numbers.Integral instances behaving like int (bool counts as int)',
    'no monkey patching of mido.messages tables at run time',
]


def r01_0(ctx):
    """The spec table is the standard's."""
    S = codec.specs(ctx)
    m = ctx.p.module(codec.SPECS_MOD)
    where = f'{m.relpath}:1 SPECS'
    got = {}
    for row in S:
        got[row['type']] = row
    n = 0
    for status, type_, names, length in reference.MIDI_SPECS:
        row = got.get(type_)
        if row is None:
            ctx.fail('R01.0', f'spec({type_})', where, 'message type missing from SPECS')
            continue
        n += 1
        ctx.require(row['status_byte'] == status, 'R01.0', f'spec({type_}).status_byte', where,
                    f'status byte is {row["status_byte"]:#x}, MIDI 1.0 says {status:#x}')
        ctx.require(tuple(row['value_names']) == tuple(names), 'R01.0', f'spec({type_}).value_names', where,
                    f'value names {row["value_names"]} differ from {names}')
        ctx.require(row['length'] == length, 'R01.0', f'spec({type_}).length', where,
                    f'length is {row["length"]}, MIDI 1.0 says {length}')
        ctx.require(set(row['attribute_names']) == set(names) | {'type', 'time'}, 'R01.0',
                    f'spec({type_}).attribute_names', where, f'attribute names are {sorted(row["attribute_names"])}')
    extra = set(got) - {t for _, t, _, _ in reference.MIDI_SPECS}
    ctx.require(not extra, 'R01.0', 'spec.extra', where, f'types not in MIDI 1.0: {sorted(extra)}')
    ctx.floor('R01.0', n, 18)
    B = codec.spec_by_status(ctx)
    T = codec.spec_by_type(ctx)
    want = {}
    for status, type_, names, length in reference.MIDI_SPECS:
        if status < 0xf0:
            for ch in range(16):
                want[status | ch] = type_
        else:
            want[status] = type_
    have = {k: v['type'] for k, v in B.items()}
    ctx.require(have == want, 'R01.0', 'SPEC_BY_STATUS', where,
                'status lookup differs from MIDI 1.0: ' + ', '.join(
                    f'{k:#x}:{have.get(k)}!={want.get(k)}' for k in sorted(set(have) | set(want), key=lambda x: (isinstance(x, str), x))
                    if have.get(k) != want.get(k))[:300])
    ctx.require({k: v['type'] for k, v in T.items()} == {t: t for _, t, _, _ in reference.MIDI_SPECS},
                'R01.0', 'SPEC_BY_TYPE', where, 'type lookup does not map each type to its own spec')
    for k, v in B.items():
        ctx.require(any(v is row for row in S) and T.get(v['type']) is v, 'R01.0', f'spec-identity({k:#x})' if isinstance(k, int) else f'spec-identity({k})',
                    where, 'SPEC_BY_STATUS entry is not the SPECS/SPEC_BY_TYPE row of its type')


def r01_1(ctx):
    """Attribute domains accepted by the checks = documented domains."""
    doms = codec.attr_domains(ctx, 'R01.1')
    n = 0
    for name, (fn, r) in sorted(doms.items()):
        if r is None:
            continue
        n += 1
        want = reference.ATTR_DOMAINS.get(name)
        w = ctx.where(fn)
        if want is None:
            ctx.fail('R01.1', f'domain({name})', w, 'attribute has no documented domain')
            continue
        ctx.require(r.accepted == IntSet.range(*want), 'R01.1', f'domain({name})', w,
                    f'check accepts {r.accepted}, documented domain is [{want[0]},{want[1]}]',
                    construct=f'{fn.qname}::domain({name})', detail=f'accepted {r.accepted}')
        bad = {e: s for e, s in r.rejected.items() if e != 'ValueError'}
        ctx.require(not bad, 'R01.1', f'range-error-type({name})', w,
                    f'out-of-range integers raise {sorted(bad)} instead of ValueError',
                    construct=f'{fn.qname}::exc({name})')
        ctx.require(r.type_test is not None and 'Integral' in r.type_test and r.type_test_first,
                    'R01.1', f'type-test({name})', w,
                    'no isinstance(x, Integral) test raising TypeError ahead of the range test',
                    construct=f'{fn.qname}::type({name})')
    ctx.floor('R01.1', n, 11)
    fn, item_fn, r = codec.data_byte_domain(ctx)
    w = ctx.where(fn)
    if r is None:
        ctx.fail('R01.1', 'domain(data)', w, 'what check_data accepts cannot be established: it is not one item check applied to every item, and executed on lists (one value, one position at a time) it does not end the same way for the same items - or lets a bad item through',
                 construct=f'{fn.qname}::shape')
    else:
        ctx.require(r.accepted == IntSet.range(0, 127), 'R01.1', 'domain(data[i])', ctx.where(item_fn),
                    f'sysex data items accepted: {r.accepted}, documented 0..127',
                    construct=f'{item_fn.qname}::domain(data)')
        ctx.require(r.type_test is not None and 'Integral' in r.type_test, 'R01.1', 'type-test(data[i])',
                    ctx.where(item_fn), 'data items are not type checked')


def _encode_all(ctx):
    doms = codec.attr_domains(ctx)
    syms = codec.attr_syms(doms)
    S = codec.specs(ctx)
    ai = codec.make_interp(ctx)
    out = {}
    for row in S:
        t = row['type']
        missing = [n for n in row['value_names'] if n != 'data' and n not in syms]
        if missing:
            out[t] = (row, None, f'no integer domain for {missing}')
            continue
        outs = codec.encode_outcomes(ctx, ai, t, row['value_names'], syms)
        out[t] = (row, outs, None)
    return syms, out


def r01_2(ctx):
    """Encoder layout per type."""
    syms, enc = _encode_all(ctx)
    ctx.extra['encoder_layouts'] = {}
    encf = ctx.p.func(codec.ENC_MOD, 'encode_message')
    w = ctx.where(encf)
    ntypes = nbytes = 0
    for t, (row, outs, err) in enc.items():
        inst = f'encode({t})'
        if err:
            ctx.fail('R01.2', inst, w, err)
            continue
        if len(outs) != 1 or outs[0].kind != 'return':
            ctx.fail('R01.2', inst, w, f'encoder does not return one list for every valid {t}: {outs}',
                     construct=f'{encf.qname}::{t}::outcomes')
            continue
        val = outs[0].value
        if not isinstance(val, (AList, list)):
            ctx.fail('R01.2', inst, w, f'encoder result is not a list: {val!r}', construct=f'{encf.qname}::{t}::result')
            continue
        items = val.items if isinstance(val, AList) else list(val)
        ctx.extra['encoder_layouts'][t] = repr(items)
        ntypes += 1
        status = row['status_byte']
        # (a) status byte
        first = items[0] if items else None
        fav = AV(first) if isinstance(first, int) else first
        if status < 0xf0:
            want = AV(status).add(AV.of_sym(syms['channel'][0], syms['channel'][1]))
        else:
            want = AV(status)
        ctx.require(isinstance(fav, AV) and fav.same(want), 'R01.2a', f'{inst}.status', w,
                    f'status byte is {fav!r}, expected {want!r}', construct=f'{encf.qname}::{t}::status')
        if t == 'sysex':
            ok = (len(items) == 3 and isinstance(items[1], SeqVar) and items[1].name == 'D'
                  and items[2] == 0xf7)
            ctx.require(ok, 'R01.2d', f'{inst}.framing', w,
                        f'sysex encoding is {items!r}, expected [0xF0] + data + [0xF7]',
                        construct=f'{encf.qname}::sysex::framing')
            nbytes += 1
            continue
        ref = reference.DATA_LAYOUT[t]
        ctx.require(len(items) == row['length'] == len(ref) + 1, 'R01.2d', f'{inst}.length', w,
                    f'{len(items)} bytes encoded, spec length {row["length"]}, MIDI 1.0 {len(ref) + 1}',
                    construct=f'{encf.qname}::{t}::length')
        for i, fields in enumerate(ref):
            if i + 1 >= len(items):
                break
            b = items[i + 1]
            bav = AV(b) if isinstance(b, int) else b
            nbytes += 1
            inst_b = f'{inst}.byte{i + 1}'
            if not isinstance(bav, AV) or bav.is_top:
                ctx.fail('R01.2c', inst_b, w, f'cannot establish the layout of data byte {i + 1}: {bav!r}',
                         construct=f'{encf.qname}::{t}::byte{i + 1}')
                continue
            lo, hi = bav.interval()
            ctx.require(0 <= lo and hi <= 127, 'R01.2b', f'{inst_b}.range', w,
                        f'data byte {i + 1} ranges over [{lo},{hi}] for checked attributes (must stay in 0..127)',
                        construct=f'{encf.qname}::{t}::byte{i + 1}::range')
            want = codec.ref_byte(fields, syms)
            ctx.require(bav.same(want), 'R01.2c', f'{inst_b}.layout', w,
                        f'data byte {i + 1} is {bav!r}, MIDI 1.0 layout is {want!r}',
                        construct=f'{encf.qname}::{t}::byte{i + 1}::layout')
    ctx.floor('R01.2', ntypes, 18)
    ctx.floor('R01.2-bytes', nbytes, 17)


def r01_3(ctx):
    """Decoder layout: decode(encode(attrs)) == attrs, every data bit used once."""
    syms, enc = _encode_all(ctx)
    B = codec.spec_by_status(ctx)
    ai = codec.make_interp(ctx)
    decf = ctx.p.func(codec.DEC_MOD, 'decode_message')
    w = ctx.where(decf)
    nstat = 0
    types_seen = set()
    tmark = Opaque('TIME-MARKER')
    for status in sorted(B):
        row = B[status]
        t = row['type']
        erow, eouts, err = enc.get(t, (None, None, 'type not encoded'))
        if err or not eouts or len(eouts) != 1 or eouts[0].kind != 'return':
            continue    # reported by R01.2
        inst = f'decode({status:#04x} {t})'
        if t == 'sysex':
            shape = AList([status, SeqVar('D', 127), 0xf7])
            dsyms = []
        else:
            n = row['length'] - 1
            dsyms = [Sym(f'd{i}', 127) for i in range(n)]
            shape = AList([status] + [AV.of_sym(s) for s in dsyms])
        outs = codec.decode_outcomes(ctx, ai, shape, tmark)
        if len(outs) != 1 or outs[0].kind != 'return' or not isinstance(outs[0].value, ADict):
            ctx.fail('R01.3', inst, w, f'decoder does not return one dict for a well-formed {t}: {outs}',
                     construct=f'{decf.qname}::{t}::outcomes')
            continue
        nstat += 1
        types_seen.add(t)
        d = outs[0].value.d
        cons = f'{decf.qname}::{t}'
        ctx.require(d.get('type') == t, 'R01.3', f'{inst}.type', w, f'decoded type is {d.get("type")!r}',
                    construct=cons + '::type')
        ctx.require(d.get('time') is tmark, 'R01.5', f'{inst}.time', w,
                    'the time argument does not reach the decoded dict unchanged', construct=cons + '::time')
        names = set(row['value_names'])
        ctx.require(set(d) == names | {'type', 'time'}, 'R01.3', f'{inst}.attributes', w,
                    f'decoded attributes {sorted(d)} != {sorted(names | {"type", "time"})}',
                    construct=cons + '::attrs')
        if t == 'sysex':
            v = d.get('data')
            ok = isinstance(v, AList) and len(v.items) == 1 and isinstance(v.items[0], SeqVar) \
                and v.items[0].name == 'D' and v.kind == 'tuple'
            ctx.require(ok, 'R01.3', f'{inst}.data', w, f'decoded data is {v!r}, expected tuple(D)',
                        construct=cons + '::data')
            continue
        # substitution of encoder bytes for data symbols
        eitems = eouts[0].value.items if isinstance(eouts[0].value, AList) else list(eouts[0].value)
        mapping = {}
        for i, s in enumerate(dsyms):
            if i + 1 < len(eitems):
                b = eitems[i + 1]
                mapping[s] = AV(b) if isinstance(b, int) else b
        used = []
        for name in row['value_names']:
            v = d.get(name)
            if name == 'channel':
                ctx.require(v == (status & 0x0f), 'R01.3', f'{inst}.channel', w,
                            f'decoded channel {v!r} != {status & 0x0f}', construct=cons + '::channel')
                continue
            av = AV(v) if isinstance(v, int) else v
            if not isinstance(av, AV) or av.is_top:
                ctx.fail('R01.3', f'{inst}.{name}', w, f'cannot establish the layout of decoded {name}: {av!r}',
                         construct=cons + f'::{name}')
                continue
            used += [(s, src) for s, src, tgt in av.terms]
            if name not in syms:
                continue
            back = av.subst(mapping)
            ident = AV.of_sym(*syms[name])
            ctx.require(back.same(ident), 'R01.3', f'{inst}.{name}', w,
                        f'decode(encode({name})) = {back!r}, not {ident!r}  (decoder: {av!r})',
                        construct=cons + f'::{name}')
        want_bits = sorted((s.name, i) for s in dsyms for i in range(7))
        got_bits = sorted((s.name, i) for s, i in used)
        ctx.require(got_bits == want_bits, 'R01.3b', f'{inst}.bijection', w,
                    'the decoder does not use every bit of every data byte exactly once '
                    f'(missing {sorted(set(want_bits) - set(got_bits))}, '
                    f'repeated {sorted({b for b in got_bits if got_bits.count(b) > 1})})',
                    construct=cons + '::bijection')
    ctx.floor('R01.3', nstat, 123)
    ctx.floor('R01.3-types', len(types_seen), 18)


def r01_4(ctx):
    """len(message)."""
    syms, enc = _encode_all(ctx)
    cls = ctx.p.cls(codec.MSG_MOD, 'Message')
    o, fn = ctx.p.lookup_method(cls, '__len__')
    if fn is None:
        raise AnalysisError('Message.__len__ not found')
    ctx.fn(fn)
    ai = codec.make_interp(ctx)
    w = ctx.where(fn)
    n = 0
    for t, (row, outs, err) in enc.items():
        if err or len(outs) != 1 or outs[0].kind != 'return':
            continue
        val = outs[0].value
        items = val.items if isinstance(val, AList) else list(val)
        elen = ai.length_of(AList(items))
        obj = AObj(cls, {'type': t, 'data': AList([SeqVar('D', 127)], 'tuple'), 'time': 0})
        res = ai.explore(lambda: ai.call_function(fn, [obj], {}))
        n += 1
        inst = f'len({t})'
        if len(res) != 1 or res[0].kind != 'return':
            ctx.fail('R01.4', inst, w, f'__len__ does not return one value: {res}', construct=f'{fn.qname}::{t}')
            continue
        r = res[0].value
        if isinstance(elen, LenV):
            ok = isinstance(r, LenV) and r.const == elen.const and r.vars == elen.vars
        else:
            ok = r == elen
        ctx.require(ok, 'R01.4', inst, w, f'len() gives {r!r}, the encoder emits {elen!r} bytes',
                    construct=f'{fn.qname}::{t}')
    ctx.floor('R01.4', n, 18)


def r01_5(ctx):
    """time passes through from_bytes / from_hex."""
    cls = ctx.p.cls(codec.MSG_MOD, 'Message')
    fb = ctx.fn(ctx.p.func(codec.MSG_MOD, 'Message.from_bytes'))
    ai = codec.make_interp(ctx)
    tmark = Opaque('TIME-MARKER')
    d0, d1 = Sym('d0', 127), Sym('d1', 127)
    shape = AList([0x90, AV.of_sym(d0), AV.of_sym(d1)])
    res = ai.explore(lambda: ai.call_function(fb, [ClassRef(cls), shape], {'time': tmark}))
    w = ctx.where(fb)
    ok = len(res) == 1 and res[0].kind == 'return' and isinstance(res[0].value, AObj) \
        and res[0].value.attrs.get('time') is tmark
    ctx.require(ok, 'R01.5', 'from_bytes.time', w, f'time does not reach the message unchanged: {res}',
                construct=f'{fb.qname}::time')
    if ok:
        v = res[0].value
        ctx.require(v.cls == cls and v.attrs.get('type') == 'note_on' and v.attrs.get('channel') == 0,
                    'R01.5', 'from_bytes.result', w, f'unexpected result {v!r}', construct=f'{fb.qname}::result')
    # sysex data wrapped
    shape = AList([0xf0, SeqVar('D', 127), 0xf7])
    res = ai.explore(lambda: ai.call_function(fb, [ClassRef(cls), shape], {'time': tmark}))
    ok = len(res) == 1 and res[0].kind == 'return' and isinstance(res[0].value, AObj) \
        and isinstance(res[0].value.attrs.get('data'), AList) and res[0].value.attrs['data'].kind == 'tuple'
    ctx.require(ok, 'R01.5', 'from_bytes.sysex', w, f'sysex from_bytes result {res}', construct=f'{fb.qname}::sysex')


def r01_6(ctx):
    """bytes() / bin() / hex() / from_hex agree, for every message type with symbolic attribute values (abstractly interpreted
    in the string domain): bytes() is the encoder applied to the message's own attributes, bin() holds the same items, the text
    hex() produces denotes exactly those bytes (two digits per byte, separator between pairs only) for the default and for a
    custom separator, and from_hex of that text gives back the message with the time passed in."""
    from .. import strdom, wire
    cls = ctx.p.cls(codec.MSG_MOD, 'Message')
    meths = {}
    for nm in ('bytes', 'bin', 'hex'):
        o, f = ctx.p.lookup_method(cls, nm)
        if f is None:
            raise AnalysisError(f'Message.{nm} not found')
        meths[nm] = ctx.fn(f)
    fh = ctx.fn(ctx.p.func(codec.MSG_MOD, 'Message.from_hex'))
    enc = ctx.fn(ctx.p.func(codec.ENC_MOD, 'encode_message'))
    doms = codec.attr_domains(ctx)
    syms = codec.attr_syms(doms)
    ai = codec.make_interp(ctx)
    strdom.install(ai)
    tmark = Opaque('TIME-MARKER')
    n = 0
    for row in codec.specs(ctx):
        t = row['type']
        if any(nm != 'data' and nm not in syms for nm in row['value_names']):
            continue
        n += 1
        data = AList([AV.of_sym(Sym('x0', 127)), AV.of_sym(Sym('x1', 127))], 'tuple')
        d = codec.msg_dict(t, row['value_names'], syms, time=0, data=data)
        holder = {}

        def thunk():
            m = AObj(cls, dict(d.d), name=f'msg:{t}')
            holder['m'] = m
            ref = ai.call_function(enc, [ADict(dict(d.d))], {})
            b = ai.call_function(meths['bytes'], [m], {})
            bn = ai.call_function(meths['bin'], [m], {})
            h = ai.call_function(meths['hex'], [m], {})
            hc = ai.call_function(meths['hex'], [m, ':'], {})
            back = ai.call_function(fh, [ClassRef(cls), h], {'time': tmark})
            back2 = ai.call_function(fh, [ClassRef(cls), hc], {'time': tmark, 'sep': ':'})
            # a separator that contains whitespace next to other characters (the same separator on both sides)
            back3 = ai.call_function(fh, [ClassRef(cls), ai.call_function(meths['hex'], [m, ',\n'], {})], {'time': tmark, 'sep': ',\n'})
            holder['back3'] = back3
            return ref, b, bn, h, hc, back, back2
        outs = ai.explore(thunk)
        wb, wh, wf = ctx.where(meths['bytes']), ctx.where(meths['hex']), ctx.where(fh)
        if len(outs) != 1 or outs[0].kind != 'return':
            ctx.fail('R01.6', f'codec-agreement({t})', wh, f'bytes/bin/hex/from_hex do not complete on one path: {outs}',
                     construct=f'{meths["hex"].qname}::{t}::outcomes')
            continue
        ref, b, bn, h, hc, back, back2 = outs[0].value

        def items(v):
            return list(v.items) if isinstance(v, AList) else list(v) if isinstance(v, (list, tuple, bytes, bytearray)) else None
        ri, bi, bni = items(ref), items(b), items(bn)
        ctx.require(ri is not None and bi is not None and wire.items_equal(ri, bi), 'R01.7', f'bytes({t})', wb,
                    f'bytes() gives {b!r}; encode_message on the message attributes gives {ref!r}', construct=f'{meths["bytes"].qname}::shape')
        ctx.require(bni is not None and bi is not None and wire.items_equal(bni, bi), 'R01.6', f'bin({t})', ctx.where(meths['bin']),
                    f'bin() holds {bn!r}, bytes() gives {b!r}', construct=f'{meths["bin"].qname}::shape')
        for text, sep, label in ((h, None, 'hex()'), (hc, ':', "hex(':')")):
            ok = False
            why = f'{label} gives {text!r}'
            try:
                ss = strdom.to_sstr(text)
                if ss is not None:
                    if sep is not None:
                        ss = strdom.norm(strdom.SStr([x.replace(sep, ' ') if isinstance(x, str) else x for x in ss.segs]))
                    denoted = strdom.fromhex(ss)
                    ok = denoted is not None and bi is not None and wire.items_equal(denoted, bi)
                    why = f'{label} gives {text!r}, which denotes {denoted!r}; bytes() gives {b!r}'
            except AbsRaise:
                why = f'{label} gives {text!r}, which is not a sequence of two-digit hex pairs separated by {sep or "whitespace"!r}'
            ctx.require(ok, 'R01.6', f'{label}({t})', wh, why, construct=f'{meths["hex"].qname}::format')
        for bk, label in ((back, 'from_hex(hex())'), (back2, "from_hex(hex(':'), sep=':')"), (holder.get('back3'), "from_hex(hex(',\\n'), sep=',\\n')")):
            ok = isinstance(bk, AObj) and bk.attrs.get('time') is tmark and bk.attrs.get('type') == t and all(
                wire.value_equal(bk.attrs.get(k), v) or (isinstance(v, AList) and isinstance(bk.attrs.get(k), AList)
                                                         and wire.items_equal(bk.attrs[k].items, v.items))
                for k, v in d.d.items() if k not in ('time', 'type'))
            ctx.require(ok, 'R01.5', f'{label}({t})', wf, f'{label} gives {bk!r}; expected the attributes of the original and the time passed in',
                        construct=f'{fh.qname}::roundtrip')
    ctx.floor('R01.6', n, 18)
    for q in ai.inlined:
        ctx.functions.add(q)


def r01_frozen(ctx):
    """Every valid message: also the ones that went through freeze_message / thaw_message.  They must come out equal attribute
    for attribute and in the same representation (sysex data a tuple) - decode(encode(m)) == m compares vars() (shared with
    C15 R15.1/R15.2)."""
    from . import c15
    ctx.borrow(c15.r15_freeze_thaw, 'R01.8')


def r01_refused(ctx):
    """Every message the API hands out is a valid one - also after an assignment or a copy that was refused: the value is checked
    before anything is stored, so what bytes() encodes afterwards is still inside the domains the codec is proved for (shared
    with C03 R03.3)."""
    from . import c03
    ctx.borrow(c03.r03_3_setattr, 'R01.9')
    ctx.borrow(c03.r03_3_copy, 'R01.9')


def r01_dict(ctx):
    """What dict() exports is the caller's: a new dictionary, never the message's own attribute table (editing the export would
    edit the message past every check, and bytes() would encode whatever was written) - shared with C14 R14.5."""
    from . import c14
    ctx.borrow(c14.r14_dict, 'R01.10')


def r01_input(ctx):
    """Decoding an encoding leaves the encoding as it was: the bytearray bin() returned still decodes to the same message the
    second time (shared with C02 R02.10)."""
    from . import c02
    ctx.borrow(c02.r02_input_untouched, 'R01.11')


def r01_fresh(ctx):
    """Every bytes() is a new list (shared with C02 R02.11): an encoding the caller went on to edit does not change what the
    next message of that type encodes to."""
    from . import c02
    ctx.borrow(c02.r02_fresh_encoding, 'R01.12')


RULES = [('R01.12', r01_fresh), ('R01.11', r01_input), ('R01.10', r01_dict), ('R01.9', r01_refused), ('R01.8', r01_frozen), ('R01.0', r01_0), ('R01.1', r01_1), ('R01.2', r01_2), ('R01.3', r01_3), ('R01.4', r01_4),
         ('R01.5', r01_5), ('R01.6', r01_6)]
