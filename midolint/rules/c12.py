"""C12 - merge_tracks keeps every event at its absolute time."""
from __future__ import annotations

import ast

from .. import astq, portmodel as pm, smf, wire
from ..absint import AList, AObj, Opaque
from ..model import AnalysisError, unparse

LEVEL = 'other'
EXPLANATION = (
    'merge_tracks with _to_abstime, _to_reltime, fix_end_of_track, Message.copy/MetaMessage.copy inlined is abstractly '
    'interpreted (generators evaluated as finite lists) on track lists whose messages carry symbolic attribute values and '
    'concrete small delta times chosen so that every ordering decision of the merge is exercised: ties between tracks and '
    'inside a track, end_of_track missing / repeated / in the middle / carrying the longest duration, empty tracks and no '
    'tracks, with and without skip_checks.  The result is compared with a reference merge written from the property '
    '(absolute ticks, order by (time, track, index), one trailing end_of_track, total duration = longest input), and '
    'the inputs must be untouched (no store on any input message or track, every output message a different object); both '
    'values of skip_checks must give the same result.  Gaps far beyond any fixed-width limit and single-message tracks are among '
    'the scenarios; that MidiFile.merged_track merges the current contents is shared with C16.')
TRUSTED = ['midolint abstract interpreter (eager generators, stable sort on constant keys)', 'reference merge in midolint/rules/c12.py']
ASSUMPTIONS = ['delta times are non-negative integers (C07); arithmetic on concrete times stands for the general prefix-sum argument']

TR = wire.TR_MOD


def ev(kind, t, note=None):
    return (kind, t, note)


SCENARIOS = {
    'ties-across-and-within': [[ev('n', 0, 1), ev('n', 10, 2), ev('eot', 5)], [ev('n', 10, 3), ev('n', 0, 4), ev('n', 5, 5)], []],
    'eot-middle-and-repeated': [[ev('n', 2, 1), ev('eot', 3), ev('n', 4, 2), ev('eot', 0), ev('eot', 6)], [ev('n', 9, 3)]],
    'no-tracks': [],
    'one-empty-track': [[]],
    'only-eot-is-longest': [[ev('eot', 7)], [ev('n', 3, 1)]],
    'missing-eot': [[ev('n', 1, 1), ev('n', 1, 2)], [ev('n', 1, 3), ev('n', 1, 4)]],
    'three-way-tie-at-zero': [[ev('n', 0, 1)], [ev('n', 0, 2)], [ev('n', 0, 3), ev('n', 0, 4)]],
    'meta-and-messages': [[ev('tempo', 0, 1), ev('n', 5, 2)], [ev('n', 5, 3), ev('tempo', 0, 4), ev('eot', 1)]],
    'tie-order-is-track-order-not-type-order': [[ev('tempo', 5, 1), ev('n', 0, 2)], [ev('n', 5, 3)], [ev('eot', 5), ev('n', 0, 4)]],
    'adjacent-eots-both-nonzero': [[ev('n', 2, 1), ev('eot', 3), ev('eot', 4)], [ev('n', 1, 2)]],
    'eots-of-two-tracks-adjacent-in-merge': [[ev('n', 1, 1), ev('eot', 9)], [ev('n', 2, 2), ev('eot', 20)], [ev('n', 40, 3)]],
    'later-track-earlier-times': [[ev('n', 20, 1)], [ev('n', 5, 2), ev('n', 5, 3)], [ev('n', 1, 4), ev('eot', 30)]],
    # gaps beyond every fixed-width limit one might clamp to (28-bit VLQ, 32-bit, 63-bit): ticks are unbounded integers
    'huge-gaps': [[ev('n', 2 ** 28 + 5, 1), ev('n', 3, 2), ev('eot', 2 ** 33)], [ev('n', 7, 3), ev('n', 2 ** 40, 4)], [ev('eot', 2 ** 70)]],
    'single-message-tracks': [[ev('tempo', 0, 1)], [ev('n', 4, 2)], [ev('eot', 9)], [ev('n', 1, 3), ev('n', 1, 4)]],
    # meta events of types the library does not know, and text events (whatever charset their file was loaded with)
    'unknown-meta-and-text': [[ev('unk', 3, 1), ev('n', 2, 2), ev('txt', 0, 3)], [ev('unk', 4, 4), ev('txt', 1, 5), ev('eot', 2)]],
    # ties are broken by track and position only, never by what kind of message it is: a note_off behind a note_on on the same
    # tick (a legato line), or in a later track than a tempo change on that tick, stays behind
    'note-offs-in-ties': [[ev('n', 0, 1), ev('n', 10, 2), ev('off', 0, 1), ev('tempo', 0, 3), ev('off', 5, 2)], [ev('tempo', 10, 4), ev('off', 0, 5), ev('n', 5, 6)]],
    # tracks may hold frozen messages (the documented way to keep messages in sets and as dictionary keys): they merge like any
    # other, and come out frozen
    'frozen-messages': [[ev('tempo', 0, 1), ev('n', 5, 2), ev('unk', 1, 3), ev('eot', 4)], [ev('n', 5, 4), ev('tempo', 0, 5), ev('eot', 1)]],
}


def build(ai, ctx, spec, frozen=False):
    tracks = []
    allmsgs = []
    fz = {n_: ctx.p.cls('mido.frozen', 'Frozen' + n_) for n_ in ('Message', 'MetaMessage', 'UnknownMetaMessage')} if frozen else {}
    for ti, tr in enumerate(spec):
        msgs = []
        for kind, t, note in tr:
            if kind == 'n':
                m = wire.make_message(ctx, 'note_on', {'channel': smf.sym(f'ch{note}', 15), 'note': note, 'velocity': smf.sym(f'v{note}', 127)}, t)
            elif kind == 'off':
                m = wire.make_message(ctx, 'note_off', {'channel': smf.sym(f'ch{note}', 15), 'note': note, 'velocity': smf.sym(f'v{note}', 127)}, t)
            elif kind == 'tempo':
                m = wire.make_meta(ai, ctx, 'set_tempo', {'tempo': 1000 + note}, t)
            elif kind == 'unk':
                from ..fold import ClassRef
                m = ai.apply(ClassRef(ctx.p.cls(wire.META_MOD, 'UnknownMetaMessage')), [0x60 + note], {'data': AList([note, smf.sym(f'u{note}', 255)], 'tuple'), 'time': t}, None)
            elif kind == 'txt':
                m = wire.make_meta(ai, ctx, 'track_name', {'name': wire.StrSym(f'N{note}')}, t)
            else:
                m = wire.make_meta(ai, ctx, 'end_of_track', {}, t)
            if frozen and m.cls is not None and m.cls.name in fz:
                m.cls = fz[m.cls.name]
            m.stores.clear()            # (what the constructor stored is not a modification by merge_tracks)
            msgs.append(m)
            allmsgs.append(m)
        tracks.append(AList(msgs, 'MidiTrack'))
    return tracks, allmsgs


def reference(spec):
    """[(ident, delta)] + final end_of_track delta, from the property statement."""
    evs = []
    longest = 0
    for ti, tr in enumerate(spec):
        now = 0
        for i, (kind, t, note) in enumerate(tr):
            now += t
            if kind != 'eot':
                evs.append((now, ti, i, (kind, note)))
        longest = max(longest, now)
    evs.sort(key=lambda e: (e[0], e[1], e[2]))
    out = []
    now = 0
    for at, ti, i, ident in evs:
        out.append((ident, at - now))
        now = at
    return out, longest - now


def ident_of(obj):
    if not isinstance(obj, AObj):
        return None
    t = obj.attrs.get('type')
    if t == 'note_on':
        return ('n', obj.attrs.get('note'))
    if t == 'note_off':
        return ('off', obj.attrs.get('note'))
    if t == 'set_tempo':
        return ('tempo', obj.attrs.get('tempo') - 1000 if isinstance(obj.attrs.get('tempo'), int) else None)
    if t == 'end_of_track':
        return ('eot', None)
    if t == 'unknown_meta':
        tb = obj.attrs.get('type_byte')
        return ('unk', tb - 0x60 if isinstance(tb, int) else None)
    if t == 'track_name':
        nm = obj.attrs.get('name')
        return ('txt', int(nm.name[1:]) if isinstance(nm, wire.StrSym) and nm.name[1:].isdigit() else None)
    return (t, None)


def r12_scenarios(ctx):
    ai = smf.make_interp(ctx)
    mt = ctx.fn(ctx.p.func(TR, 'merge_tracks'))
    w = ctx.where(mt)
    n = 0
    for name, spec in SCENARIOS.items():
        for skip in (False, True):
            n += 1
            holder = {}

            def thunk():
                tracks, allmsgs = build(ai, ctx, spec, frozen=name.startswith('frozen'))
                holder['tracks'] = tracks
                holder['msgs'] = allmsgs
                holder['before'] = [dict(m.attrs) for m in allmsgs]
                holder['tbefore'] = [list(t.items) for t in tracks]
                return ai.call_function(mt, [AList(tracks, 'list')], {'skip_checks': skip})
            outs = ai.explore(thunk)
            inst = f'merge[{name}{", skip_checks" if skip else ""}]'
            cons = f'{mt.qname}::{name}'
            if len(outs) != 1 or outs[0].kind != 'return':
                ctx.fail('R12.1', inst, w, f'merge does not complete on one path: {outs}', construct=cons + '::outcomes')
                continue
            res = outs[0].value
            items = res.items if isinstance(res, AList) else None
            ctx.require(isinstance(res, AList) and res.kind == 'MidiTrack', 'R12.1', f'{inst}.type', w, f'result is {type(res).__name__} {getattr(res, "kind", "")}, not a MidiTrack',
                        construct=cons + '::result-type')
            if items is None:
                continue
            want, final = reference(spec)
            got = [(ident_of(x), x.attrs.get('time') if isinstance(x, AObj) else None) for x in items]
            exp = want + [(('eot', None), final)]
            ctx.require(got == exp, 'R12.1', f'{inst}.events', w,
                        f'merged track is {got}; every event at its absolute tick, ties in track order, one end_of_track of the longest duration gives {exp}',
                        construct=cons + '::events')
            # attributes other than time preserved
            src = {ident_of(m): m for m in holder['msgs'] if ident_of(m)[0] != 'eot'}
            same = True
            for x in items:
                idn = ident_of(x)
                if idn in src:
                    a = {k: v for k, v in x.attrs.items() if k != 'time'}
                    b = {k: v for k, v in src[idn].attrs.items() if k != 'time'}
                    same = same and set(a) == set(b) and all(wire.value_equal(a[k], b[k]) for k in a) and x.cls == src[idn].cls
            ctx.require(same, 'R12.1', f'{inst}.attributes', w, 'a merged message differs from its source in more than the time', construct=cons + '::attributes')
            codec_calls = [e for e in outs[0].log if e[0] == 'codec']
            ctx.require(not codec_calls, 'R12.1', f'{inst}.no-codec', w,
                        f'merging encodes or decodes text ({len(codec_calls)} codec calls): whether tracks can be merged then depends on the process-wide '
                        'charset, not on the tracks', construct=cons + '::codec-call')
            # inputs untouched
            untouched = all(not m.stores and m.attrs == b for m, b in zip(holder['msgs'], holder['before'])) and \
                all(t.items == b for t, b in zip(holder['tracks'], holder['tbefore']))
            ctx.require(untouched, 'R12.4', f'{inst}.inputs', w, 'merge_tracks modifies its input tracks or messages', construct=cons + '::inputs-modified')
            fresh = all(not any(x is m for m in holder['msgs']) or x.attrs.get('time') == m_time(holder, x) for x in items)
            ctx.require(fresh, 'R12.4', f'{inst}.aliasing', w, 'an input message appears in the result with a changed time', construct=cons + '::aliasing')
    ctx.floor('R12.1', n, 28)
    for q in ai.inlined:
        ctx.functions.add(q)


def m_time(holder, x):
    for m, b in zip(holder['msgs'], holder['before']):
        if m is x:
            return b.get('time')
    return None


def r12_merged_track(ctx):
    """MidiFile.merged_track is that merge, whatever the file type (0, 1) and the number of tracks - one track included, whose
    end_of_track messages are folded like any other's - and a new track each time."""
    from ..fold import ClassRef
    ai = smf.make_interp(ctx)
    cls = ctx.p.cls(smf.MF, 'MidiFile')
    o, mtp = ctx.p.lookup_method(cls, 'merged_track')
    if mtp is None:
        raise AnalysisError('MidiFile.merged_track not found')
    ctx.fn(mtp)
    w = ctx.where(mtp)
    n = 0
    single = {'one track, end_of_track in the middle': [[('n', 2, 1), ('eot', 3, None), ('n', 4, 2), ('eot', 1, None)]],
              'one track, no end_of_track': [[('n', 2, 1), ('n', 4, 2)]],
              'one track, two end_of_tracks at the end': [[('n', 2, 1), ('eot', 3, None), ('eot', 5, None)]],
              'one empty track': [[]]}
    cases = [(name, spec, t) for name, spec in single.items() for t in (0, 1)]
    cases += [(name, SCENARIOS[name], 1) for name in list(SCENARIOS)[:4]]
    for name, spec, type_ in cases:
        n += 1
        holder = {}

        def thunk():
            tracks, allmsgs = build(ai, ctx, spec)
            holder['tracks'] = tracks
            mf = ai.apply(ClassRef(cls), [], {'type': type_, 'tracks': AList(tracks, 'list')}, None)
            a = ai.call_function(mtp, [mf], {})
            b = ai.call_function(mtp, [mf], {})
            return a, b
        outs = ai.explore(thunk)
        inst = f'merged_track[{name}, type {type_}]'
        cons = f'{mtp.qname}::is-the-merge'
        if len(outs) != 1 or outs[0].kind != 'return':
            ctx.fail('R12.6', inst, w, f'does not complete on one path: {outs}', construct=cons)
            continue
        a, b = outs[0].value
        items = a.items if isinstance(a, AList) else None
        want, final = reference(spec)
        exp = want + [(('eot', None), final)]
        got = [(ident_of(x), x.attrs.get('time') if isinstance(x, AObj) else None) for x in (items or [])]
        fresh = isinstance(a, AList) and isinstance(b, AList) and a is not b and not any(a is t or b is t for t in holder['tracks'])
        ctx.require(items is not None and got == exp and fresh, 'R12.6', inst, w,
                    f'merged_track is {got if items is not None else a!r} ({"a new track each time" if fresh else "NOT a new track: it is a track of the file, or the same object twice"}); '
                    f'the merge of the tracks is {exp}', construct=cons)
    ctx.floor('R12.6', n, 12)
    for q in ai.inlined:
        ctx.functions.add(q)


def r12_current_contents(ctx):
    """MidiFile.merged_track hands merge_tracks the tracks as they are NOW: no memo of an earlier merge (shared with C16:
    no derived state in MidiFile, observe - edit - observe equals a fresh file)."""
    from . import c16
    ctx.borrow(c16.r16_1, 'R12.5')
    ctx.borrow(c16.r16_3, 'R12.5')


def r12_results_independent(ctx):
    """Every merge builds its result from new messages: two results share no message object, and none of them is an object the
    module keeps (a ready-made end_of_track) - so a caller that edits the track it got (pads the closing end_of_track to the
    bar) changes that track and nothing else.  Otherwise the next merge in the process comes back longer than its longest input."""
    ai = smf.make_interp(ctx)
    mt = ctx.fn(ctx.p.func(TR, 'merge_tracks'))
    w = ctx.where(mt)
    n = 0
    for name in ('no-tracks', 'one-empty-track', 'missing-eot', 'ties-across-and-within', 'only-eot-is-longest', 'three-way-tie-at-zero'):
        spec = SCENARIOS[name]
        for skip in (False, True):
            n += 1

            def thunk():
                t1, _ = build(ai, ctx, spec)
                r1 = ai.call_function(mt, [AList(t1, 'list')], {'skip_checks': skip})
                i1 = list(r1.items) if isinstance(r1, AList) else None
                old = None
                if i1:
                    # what a caller may do with its own result
                    old = i1[-1].attrs.get('time')
                    i1[-1].attrs['time'] = 1000
                t2, _ = build(ai, ctx, spec)
                r2 = ai.call_function(mt, [AList(t2, 'list')], {'skip_checks': skip})
                i2 = list(r2.items) if isinstance(r2, AList) else None
                if i1 is None or i2 is None:
                    return 'not a track'
                shared = [x for x in i1 if any(x is y for y in i2)]
                last = i2[-1].attrs.get('time') if i2 and isinstance(i2[-1], AObj) else None
                if i1:
                    i1[-1].attrs['time'] = old           # (an object the module keeps would carry the edit into the other rules)
                return len(shared), last
            outs = ai.explore(thunk)
            want_last = reference(spec)[1]
            ok = len(outs) == 1 and outs[0].kind == 'return' and isinstance(outs[0].value, tuple) and outs[0].value[0] == 0 and outs[0].value[1] == want_last
            ctx.require(ok, 'R12.7', f'merge[{name}{", skip_checks" if skip else ""}] twice, first result edited in between', w,
                        f'(messages shared by the two results, closing delta of the second) = {outs[0].value if len(outs) == 1 and outs[0].kind == "return" else outs!r}; '
                        f'expected (0, {want_last}): a merge hands out an object it (or the module) keeps', construct=f'{mt.qname}::shared-result-message')
    ctx.floor('R12.7', n, 12)
    for q in ai.inlined:
        ctx.functions.add(q)


RULES = [('R12.7', r12_results_independent), ('R12.6', r12_merged_track), ('R12-scenarios', r12_scenarios), ('R12.5', r12_current_contents)]
