"""C11 - port lifecycle: idempotent close, drain then stop, blocking calls terminate."""
from __future__ import annotations

import ast

from .. import astq, portmodel as pm
from ..absint import AbsRaise, AList, AObj, Opaque, log_event
from ..fold import ClassRef
from ..model import AnalysisError, unparse

LEVEL = 'other'
EXPLANATION = (
    'Typestate obligations decided by abstract interpretation of ONE port API call from an explicitly constructed abstract '
    'pre-state (open/closed x pending queue contents x autoreset), with the device hooks (_open/_close/_send/_receive, '
    'sleep) replaced by logging, scripted summaries: close() from open runs reset (32 messages) before exactly one '
    '_close and sets closed, also when the reset fails with OSError; close() from closed does nothing; send() on a closed '
    'port raises ValueError without touching the device; receive()/poll() hand out pending messages before looking at '
    'closed, poll never sleeps, a blocking receive returns the message the device delivers after k empty polls and '
    'sleeps only between polls; iteration (BaseInput.__iter__, evaluated as a finite generator) yields exactly the '
    'pending messages and ends without exception when the port was closed before, or closes inside _receive; '
    'MultiPort.receive(block=True) with a pending message in a child terminates and returns it (an endless generator '
    'handed to deque.extend is reported as non-termination); reset/panic on a closed port do nothing; __exit__/__del__ '
    'close.  The same calls are made on BaseIOPort, EchoPort, IOPort and MultiPort objects built by their real constructors.')
TRUSTED = ['midolint abstract interpreter (with statements execute their body; generators are evaluated eagerly)',
           'device doubles in midolint.portmodel']
ASSUMPTIONS = ['single thread (interleavings: C10)', 'wall-clock promptness is not decided, only that no sleep precedes a deliverable message']

P = pm.PORTS


def one(ctx, rule, inst, where, outs, cons):
    if len(outs) != 1:
        ctx.fail(rule, inst, where, f'the call does not have exactly one outcome: {outs}' +
                 (' (undecided: ' + '; '.join(d[2] for o in outs for d in o.decisions)[:200] + ')' if any(o.decisions for o in outs) else ''),
                 construct=cons + '::outcomes')
        return None
    return outs[0]


def r11_close(ctx):
    ai = pm.make_interp(ctx)
    pm.device_double(ai, ctx)
    base = ctx.p.cls(P, 'BasePort')
    o, closef = ctx.p.lookup_method(base, 'close')
    ctx.fn(closef)
    w = ctx.where(closef)
    for clsname, kwargs, label in (('BaseIOPort', {}, 'io'), ('BaseOutput', {'autoreset': True}, 'output autoreset'),
                                   ('BaseInput', {}, 'input'), ('EchoPort', {}, 'echo'), ('BaseIOPort', {'autoreset': True}, 'io autoreset')):
        holder = {}

        def thunk():
            port = pm.new_port(ai, ctx, clsname, [], dict(kwargs))
            holder['port'] = port
            log_event('mark', 'first')
            pm.call(ai, ctx, port, 'close')
            holder['closed1'] = port.attrs.get('closed')
            log_event('mark', 'second')
            pm.call(ai, ctx, port, 'close')
            log_event('mark', 'third')
            pm.call(ai, ctx, port, '__exit__', [None, None, None])
            return port
        outs = ai.explore(thunk)
        cons = f'{closef.qname}::{label}'
        oc = one(ctx, 'R11.1', f'close;close({label})', w, outs, cons)
        if oc is None:
            continue
        if oc.kind != 'return':
            ctx.fail('R11.1', f'close;close({label})', w, f'close raises {oc.exc}', construct=cons + '::raises')
            continue
        log = oc.log
        i1 = next(i for i, e in enumerate(log) if e == ('mark', 'first'))
        i2 = next(i for i, e in enumerate(log) if e == ('mark', 'second'))
        first, later = log[i1:i2], log[i2:]
        closes = pm.device_events(first, '_close')
        ctx.require(len(closes) == 1 and holder['closed1'] is True, 'R11.1', f'close({label}).releases-once', w,
                    f'first close(): {len(closes)} device releases, closed={holder["closed1"]!r}', construct=cons + '::first')
        ctx.require(not pm.device_events(later), 'R11.1', f'close({label}).idempotent', w,
                    f'a second close()/__exit__ touches the device again: {pm.device_events(later)}', construct=cons + '::second')
        sends = pm.device_events(first, '_send')
        if kwargs.get('autoreset'):
            pos_close = first.index(closes[0]) if closes else len(first)
            ok = len(sends) == 32 and all(first.index(s) < pos_close for s in sends)
            ctx.require(ok, 'R11.2', f'close({label}).autoreset', w,
                        f'{len(sends)} reset messages sent (expected 32: all notes off + reset all controllers on 16 channels), before the release',
                        construct=cons + '::autoreset')
            ctls = sorted({(getattr(s[3], 'attrs', {}).get('channel'), getattr(s[3], 'attrs', {}).get('control')) for s in sends})
            ctx.require(ctls == sorted((ch, c) for ch in range(16) for c in (121, 123)), 'R11.2', f'close({label}).reset-messages', w,
                        f'reset messages are {ctls[:6]}...', construct=cons + '::reset-messages')
        else:
            ctx.require(not sends, 'R11.2', f'close({label}).no-reset', w, f'{len(sends)} messages sent on close without autoreset',
                        construct=cons + '::no-reset')
    # every way of letting go of the port is that close: the with block left normally or by an exception of any kind (an I/O
    # error of something else in the block included), and the finaliser - 32 reset messages, then one release, autoreset as set
    from ..absint import AExcValue
    ways = [('__exit__', 'the with block ends', [None, None, None])]
    for en in ('OSError', 'FileNotFoundError', 'BrokenPipeError', 'ValueError', 'KeyboardInterrupt', 'EOFError'):
        ways.append(('__exit__', f'the with block is left by {en}', [('excclass', en), AExcValue(en, {}), Opaque('traceback')]))
    ways.append(('__del__', 'the port is dropped', []))
    for meth, wlabel, margs in ways:
        for clsname in ('BaseOutput', 'BaseIOPort'):
            holder = {}

            def thunk_w():
                port = pm.new_port(ai, ctx, clsname, [], {'autoreset': True})
                holder['port'] = port
                log_event('mark', 'first')
                return pm.call(ai, ctx, port, meth, list(margs))
            outs = ai.explore(thunk_w)
            cons = f'{closef.qname}::autoreset-on-exit'
            oc = one(ctx, 'R11.2', f'{clsname}: {wlabel}', w, outs, cons)
            if oc is None:
                continue
            log = oc.log
            i1 = next(i for i, e in enumerate(log) if e == ('mark', 'first'))
            closes = pm.device_events(log[i1:], '_close')
            sends = pm.device_events(log[i1:], '_send')
            ok = oc.kind == 'return' and len(closes) == 1 and len(sends) == 32 and all(log.index(s_) < log.index(closes[0]) for s_ in sends) \
                and holder['port'].attrs.get('autoreset') is True and (meth != '__exit__' or not oc.value)
            ctx.require(ok, 'R11.2', f'{clsname}: {wlabel}', w,
                        f'when {wlabel} an autoreset port sends {len(sends)} reset messages and is released {len(closes)} times '
                        f'(autoreset afterwards: {holder["port"].attrs.get("autoreset")!r}, outcome {oc.kind} {oc.value if oc.kind == "return" else oc.exc!r}); '
                        'expected 32 messages, then one release, the exception not swallowed', construct=cons)
    # the IOPort wrapper around an autoreset output: the reset is the output's business - 32 messages, not 64 - and both
    # wrapped ports are released once
    for meth, wlabel, margs in (('close', 'close()', []), ('__exit__', 'the with block ends', [None, None, None]), ('__del__', 'the wrapper is dropped', [])):
        holder = {}

        def thunk_io2():
            i_ = pm.new_port(ai, ctx, 'BaseInput', [], {})
            o_ = pm.new_port(ai, ctx, 'BaseOutput', [], {'autoreset': True})
            io_ = pm.new_port(ai, ctx, 'IOPort', [i_, o_], {})
            holder.update(i=i_, o=o_)
            log_event('mark', 'first')
            return pm.call(ai, ctx, io_, meth, list(margs))
        outs = ai.explore(thunk_io2)
        cons = f'{closef.qname}::ioport-autoreset'
        oc = one(ctx, 'R11.2', f'IOPort(input, autoreset output): {wlabel}', w, outs, cons)
        if oc is None:
            continue
        log = oc.log
        i1 = next(i for i, e in enumerate(log) if e == ('mark', 'first'))
        sends = pm.device_events(log[i1:], '_send')
        closes = pm.device_events(log[i1:], '_close')
        ok = oc.kind == 'return' and len(sends) == 32 and len(closes) == 2 and len({id(e[2]) for e in closes}) == 2
        ctx.require(ok, 'R11.2', f'IOPort(input, autoreset output): {wlabel}', w,
                    f'when {wlabel} the devices see {len(sends)} reset messages and {len(closes)} releases ({oc.kind}); expected 32 messages '
                    'and one release of each wrapped port', construct=cons)
    # reset failing with OSError must not prevent the release
    ai2 = pm.make_interp(ctx)

    def failing_send(interp, port, msg):
        raise AbsRaise('OSError', None)
    pm.device_double(ai2, ctx, on_send=failing_send)
    holder = {}

    def thunk2():
        port = pm.new_port(ai2, ctx, 'BaseOutput', [], {'autoreset': True})
        holder['port'] = port
        pm.call(ai2, ctx, port, 'close')
        return port
    outs = ai2.explore(thunk2)
    oc = one(ctx, 'R11.2', 'close(reset fails)', w, outs, f'{closef.qname}::reset-fails')
    if oc is not None:
        ok = oc.kind == 'return' and len(pm.device_events(oc.log, '_close')) == 1 and holder['port'].attrs.get('closed') is True
        ctx.require(ok, 'R11.2', 'close(reset fails)', w, f'a device error during the reset leaves the port unreleased: {oc}',
                    construct=f'{closef.qname}::reset-fails')
    # reset / panic on a closed port
    for meth in ('reset', 'panic'):
        def thunk3():
            port = pm.new_port(ai, ctx, 'BaseOutput', [], {})
            pm.call(ai, ctx, port, 'close')
            log_event('mark', 'after')
            pm.call(ai, ctx, port, meth)
            return port
        outs = ai.explore(thunk3)
        oc = one(ctx, 'R11.2', f'{meth}(closed)', w, outs, f'mido/ports.py::BaseOutput.{meth}::closed')
        if oc is not None:
            i = oc.log.index(('mark', 'after')) if ('mark', 'after') in oc.log else 0
            ctx.require(oc.kind == 'return' and not pm.device_events(oc.log[i:]), 'R11.2', f'{meth}(closed)', w,
                        f'{meth}() on a closed port: {oc} / {pm.device_events(oc.log[i:])}', construct=f'mido/ports.py::BaseOutput.{meth}::closed')
    # __del__ closes
    o, delf = ctx.p.lookup_method(base, '__del__')
    holder = {}

    def thunk_del():
        port = pm.new_port(ai, ctx, 'BaseIOPort', [], {})
        holder['port'] = port
        if delf is not None:
            ai.call_function(delf, [port], {})
            ai.call_function(delf, [port], {})
        return port
    outs = ai.explore(thunk_del)
    ok = delf is not None and len(outs) == 1 and outs[0].kind == 'return' and len(pm.device_events(outs[0].log, '_close')) == 1 \
        and holder['port'].attrs.get('closed') is True
    ctx.require(ok, 'R11.1', '__del__', w, f'garbage collecting an open port must release the device exactly once: {outs}',
                construct=f'{base.qname}::__del__')
    for q in ai.inlined:
        ctx.functions.add(q)


def r11_send(ctx):
    ai = pm.make_interp(ctx)
    pm.device_double(ai, ctx)
    out = ctx.p.cls(P, 'BaseOutput')
    o, sendf = ctx.p.lookup_method(out, 'send')
    ctx.fn(sendf)
    w = ctx.where(sendf)
    for clsname in ('BaseOutput', 'BaseIOPort'):
        def thunk():
            port = pm.new_port(ai, ctx, clsname, [], {})
            pm.call(ai, ctx, port, 'close')
            log_event('mark', 'after')
            pm.call(ai, ctx, port, 'send', [pm.note(ctx)])
            return port
        outs = ai.explore(thunk)
        oc = one(ctx, 'R11.3', f'send(closed {clsname})', w, outs, f'{sendf.qname}::closed')
        if oc is not None:
            i = oc.log.index(('mark', 'after')) if ('mark', 'after') in oc.log else 0
            ctx.require(oc.kind == 'raise' and oc.exc == 'ValueError' and not pm.device_events(oc.log[i:], '_send'), 'R11.3',
                        f'send(closed {clsname})', w, f'send on a closed port: {oc}; device calls {pm.device_events(oc.log[i:])}',
                        construct=f'{sendf.qname}::closed')
        holder = {}

        def thunk2():
            port = pm.new_port(ai, ctx, clsname, [], {})
            m = pm.note(ctx)
            holder['m'] = m
            pm.call(ai, ctx, port, 'send', [m])
            return port
        outs = ai.explore(thunk2)
        oc = one(ctx, 'R11.3', f'send(open {clsname})', w, outs, f'{sendf.qname}::open')
        if oc is not None:
            sends = pm.device_events(oc.log, '_send')
            ok = oc.kind == 'return' and len(sends) == 1 and isinstance(sends[0][3], AObj) and sends[0][3] is not holder['m'] \
                and sends[0][3].attrs == holder['m'].attrs
            ctx.require(ok, 'R10.6', f'send(open {clsname}).copy', w,
                        f'the device does not receive exactly one copy of the message: {sends}', construct=f'{sendf.qname}::copy')
    # what is delivered shares nothing changeable with what was sent: a sysex message whose data came in as a list (through the
    # constructor, attribute assignment or copy) is sent; the caller then still holds that list and the message
    from ..fold import ClassRef as _CR
    mcls = ctx.p.cls('mido.messages.messages', 'Message')
    for route in ('constructor', 'assignment', 'copy'):
        holder = {}

        def thunk3(route=route):
            port = pm.new_port(ai, ctx, 'BaseOutput', [], {})
            lst = AList([1, 2, 3], 'list')
            if route == 'constructor':
                m = ai.apply(_CR(mcls), ['sysex'], {'data': lst}, None)
            elif route == 'assignment':
                m = ai.apply(_CR(mcls), ['sysex'], {}, None)
                o_, sa = ctx.p.lookup_method(mcls, '__setattr__')
                ai.call_function(sa, [m, 'data', lst], {})
            else:
                m0 = ai.apply(_CR(mcls), ['sysex'], {}, None)
                m = pm.call(ai, ctx, m0, 'copy', [], {'data': lst})
            holder['m'], holder['lst'] = m, lst
            pm.call(ai, ctx, port, 'send', [m])
            return port
        outs = ai.explore(thunk3)
        oc = one(ctx, 'R10.6', f'send(sysex, data given as a list to the {route})', w, outs, f'{sendf.qname}::copy-deep::{route}')
        if oc is not None and oc.kind == 'return':
            sends = pm.device_events(oc.log, '_send')
            shared = []
            for ev in sends:
                got = ev[3]
                if isinstance(got, AObj):
                    for k, v in got.attrs.items():
                        mutable = isinstance(v, (list, dict, set, bytearray)) or (isinstance(v, AList) and v.kind in ('list', 'bytearray', 'deque'))
                        if mutable and (v is holder['lst'] or v is holder['m'].attrs.get(k)):
                            shared.append(k)
            ctx.require(len(sends) == 1 and not shared, 'R10.6', f'send(sysex, data given as a list to the {route}).independent', w,
                        f'the message handed to the device shares the mutable value of {shared} with the sender (changing the sent object or the '
                        f'list afterwards changes the received message); device calls: {len(sends)}', construct=f'{sendf.qname}::copy-deep')
        elif oc is not None:
            ctx.fail('R10.6', f'send(sysex, data given as a list to the {route})', w, f'{oc}', construct=f'{sendf.qname}::copy-deep::{route}')
    # not a message
    outs = ai.explore(lambda: pm.call(ai, ctx, pm.new_port(ai, ctx, 'BaseOutput', [], {}), 'send', ['not a message']))
    ctx.require(bool(outs) and all(o_.kind == 'raise' and o_.exc == 'TypeError' for o_ in outs), 'R11.3', 'send(non-message)', w, f'{outs}',
                construct=f'{sendf.qname}::type')
    for q in ai.inlined:
        ctx.functions.add(q)


def _input_with(ai, ctx, clsname, pending, closed):
    port = pm.new_port(ai, ctx, clsname, [], {})
    q = port.attrs.get('_messages')
    if not isinstance(q, AList):
        raise AnalysisError(f'{clsname}._messages is not a deque after construction')
    q.items.extend(pending)
    if closed:
        pm.call(ai, ctx, port, 'close')
    return port


def r11_receive(ctx):
    inp = ctx.p.cls(P, 'BaseInput')
    o, recv = ctx.p.lookup_method(inp, 'receive')
    o, itf = ctx.p.lookup_method(inp, '__iter__')
    ctx.fn(recv)
    ctx.fn(itf)
    w = ctx.where(recv)
    wi = ctx.where(itf)
    for clsname in ('BaseInput', 'BaseIOPort'):
        ai = pm.make_interp(ctx)
        pm.device_double(ai, ctx)
        # drain then stop
        holder = {}

        def thunk():
            m1, m2 = pm.note(ctx, 1), pm.note(ctx, 2)
            port = _input_with(ai, ctx, clsname, [m1, m2], closed=True)
            holder.update(m1=m1, m2=m2, port=port)
            a = pm.call(ai, ctx, port, 'receive')
            b = pm.call(ai, ctx, port, 'poll')
            c = pm.call(ai, ctx, port, 'poll')
            return a, b, c
        outs = ai.explore(thunk)
        oc = one(ctx, 'R11.4', f'drain({clsname})', w, outs, f'{recv.qname}::drain')
        if oc is not None:
            ok = oc.kind == 'return' and oc.value[0] is holder['m1'] and oc.value[1] is holder['m2'] and oc.value[2] is None \
                and not any(e[0] == 'sleep' for e in oc.log)
            ctx.require(ok, 'R11.4', f'drain({clsname})', w,
                        f'a closed port with two pending messages gives {oc} (expected m1, m2, None, no sleep)', construct=f'{recv.qname}::drain')

        def thunk_b():
            port = _input_with(ai, ctx, clsname, [], closed=True)
            return pm.call(ai, ctx, port, 'receive')
        outs = ai.explore(thunk_b)
        oc = one(ctx, 'R11.4', f'receive(closed empty {clsname})', w, outs, f'{recv.qname}::closed-empty')
        if oc is not None:
            ctx.require(oc.kind == 'raise' and oc.exc in ('ValueError', 'OSError') and not pm.device_events(oc.log, '_receive'), 'R11.4',
                        f'receive(closed empty {clsname})', w, f'{oc}', construct=f'{recv.qname}::closed-empty')
        # iteration over a closed port with pending messages: exactly those, no exception
        for npend in (0, 1, 2):
            holder = {}

            def thunk_it():
                ms = [pm.note(ctx, i) for i in range(npend)]
                port = _input_with(ai, ctx, clsname, list(ms), closed=True)
                holder['ms'] = ms
                return pm.call(ai, ctx, port, '__iter__')
            outs = ai.explore(thunk_it)
            oc = one(ctx, 'R11.5', f'iterate(closed, {npend} pending, {clsname})', wi, outs, f'{itf.qname}::closed-before')
            if oc is not None:
                ok = oc.kind == 'return' and isinstance(oc.value, AList) and len(oc.value.items) == npend and \
                    all(a is b for a, b in zip(oc.value.items, holder['ms']))
                ctx.require(ok, 'R11.5', f'iterate(closed, {npend} pending, {clsname})', wi,
                            f'iterating a closed port with {npend} pending messages: {oc}', construct=f'{itf.qname}::closed-before')
        # the device closes itself inside _receive, after delivering k messages
        for k in (0, 2):
            ai2 = pm.make_interp(ctx)
            state = {}

            def on_receive(interp, port, block):
                state['n'] = state.get('n', 0) + 1
                if state['n'] <= k:
                    return state['msgs'][state['n'] - 1]
                pm.call(interp, ctx, port, 'close')
                return None
            pm.device_double(ai2, ctx, on_receive=on_receive)

            def thunk_dev():
                state.clear()
                state['msgs'] = [pm.note(ctx, 10 + i) for i in range(k)]
                port = _input_with(ai2, ctx, clsname, [], closed=False)
                state['port'] = port
                return pm.call(ai2, ctx, port, '__iter__')
            outs = ai2.explore(thunk_dev)
            oc = one(ctx, 'R11.5', f'iterate(device closes after {k}, {clsname})', wi, outs, f'{itf.qname}::closes-inside')
            if oc is not None:
                ok = oc.kind == 'return' and isinstance(oc.value, AList) and len(oc.value.items) == k and \
                    all(a is b for a, b in zip(oc.value.items, state['msgs'])) and state['port'].attrs.get('closed') is True
                ctx.require(ok, 'R11.5', f'iterate(device closes after {k}, {clsname})', wi,
                            f'the device closes inside receive() after {k} messages: {oc}', construct=f'{itf.qname}::closes-inside')
        # blocking receive returns the message the device delivers after j empty polls; poll never sleeps
        for j in (0, 3):
            ai3 = pm.make_interp(ctx)
            state = {}

            def on_receive3(interp, port, block):
                state['n'] = state.get('n', 0) + 1
                if state['n'] > j:
                    port.attrs['_messages'].items.append(state['m'])
                return None
            pm.device_double(ai3, ctx, on_receive=on_receive3)

            def thunk_bl():
                state.clear()
                state['m'] = pm.note(ctx, 33)
                port = _input_with(ai3, ctx, clsname, [], closed=False)
                ai3.sleeps = 0
                return pm.call(ai3, ctx, port, 'receive')
            outs = ai3.explore(thunk_bl)
            oc = one(ctx, 'R11.6', f'receive(block, delivered after {j} polls, {clsname})', w, outs, f'{recv.qname}::blocking')
            if oc is not None:
                nsleep = sum(1 for e in oc.log if e[0] == 'sleep')
                ok = oc.kind == 'return' and oc.value is state['m'] and nsleep == j
                ctx.require(ok, 'R11.6', f'receive(block, delivered after {j} polls, {clsname})', w,
                            f'blocking receive: {oc}, {nsleep} sleeps (expected the message after {j} sleeps)', construct=f'{recv.qname}::blocking')
        ai4 = pm.make_interp(ctx)
        pm.device_double(ai4, ctx)

        def thunk_nb():
            port = _input_with(ai4, ctx, clsname, [], closed=False)
            return pm.call(ai4, ctx, port, 'poll'), pm.call(ai4, ctx, port, 'receive', [], {'block': False})
        outs = ai4.explore(thunk_nb)
        oc = one(ctx, 'R11.6', f'poll(empty {clsname})', w, outs, f'{recv.qname}::non-blocking')
        if oc is not None:
            ok = oc.kind == 'return' and oc.value == (None, None) and not any(e[0] == 'sleep' for e in oc.log)
            ctx.require(ok, 'R11.6', f'poll(empty {clsname})', w, f'non-blocking receive on an empty open port: {oc}, sleeps '
                        f'{sum(1 for e in oc.log if e[0] == "sleep")}', construct=f'{recv.qname}::non-blocking')
        for q in ai.inlined:
            ctx.functions.add(q)
    # iter_pending
    o, ip = ctx.p.lookup_method(inp, 'iter_pending')
    ai = pm.make_interp(ctx)
    pm.device_double(ai, ctx)
    holder = {}

    def thunk_ip():
        ms = [pm.note(ctx, i) for i in range(2)]
        holder['ms'] = ms
        port = _input_with(ai, ctx, 'BaseInput', list(ms), closed=False)
        return pm.call(ai, ctx, port, 'iter_pending')
    outs = ai.explore(thunk_ip)
    oc = one(ctx, 'R11.4', 'iter_pending', ctx.where(ip), outs, f'{ip.qname}::pending')
    if oc is not None:
        ok = oc.kind == 'return' and isinstance(oc.value, AList) and [x for x in oc.value.items] == holder['ms'] and not any(e[0] == 'sleep' for e in oc.log)
        ctx.require(ok, 'R11.4', 'iter_pending', ctx.where(ip), f'{oc}', construct=f'{ip.qname}::pending')


def r11_multi(ctx):
    """MultiPort / IOPort / EchoPort."""
    mp = ctx.p.cls(P, 'MultiPort')
    o, mrecv = ctx.p.lookup_method(mp, '_receive')
    ctx.fn(mrecv)
    w = ctx.where(mrecv)
    for block in (True, False):
        ai = pm.make_interp(ctx)
        pm.device_double(ai, ctx)
        holder = {}

        def thunk():
            e1 = pm.new_port(ai, ctx, 'EchoPort', [], {})
            e2 = pm.new_port(ai, ctx, 'EchoPort', [], {})
            m = pm.note(ctx, 5)
            holder['m'] = m
            pm.call(ai, ctx, e2, 'send', [m])
            multi = pm.new_port(ai, ctx, 'MultiPort', [[e1, e2]], {})
            ai.sleeps = 0
            return pm.call(ai, ctx, multi, 'receive', [], {'block': block})
        outs = ai.explore(thunk)
        lab = 'blocking' if block else 'non-blocking'
        oc = one(ctx, 'R11.6', f'MultiPort.receive({lab}, one pending)', w, outs, f'{mrecv.qname}::{lab}')
        if oc is not None:
            ok = oc.kind == 'return' and isinstance(oc.value, AObj) and oc.value.attrs == holder['m'].attrs and \
                not any(e[0] == 'sleep' for e in oc.log)
            ctx.require(ok, 'R11.6', f'MultiPort.receive({lab}, one pending)', w,
                        f'a message is pending in a child port but receive() gives {oc} '
                        f'({sum(1 for e in oc.log if e[0] == "sleep")} sleeps)', construct=f'{mrecv.qname}::{lab}')
        for q in ai.inlined:
            ctx.functions.add(q)
    ai = pm.make_interp(ctx)
    pm.device_double(ai, ctx)

    def thunk_e():
        multi = pm.new_port(ai, ctx, 'MultiPort', [[pm.new_port(ai, ctx, 'EchoPort', [], {})]], {})
        return pm.call(ai, ctx, multi, 'poll')
    outs = ai.explore(thunk_e)
    oc = one(ctx, 'R11.6', 'MultiPort.poll(empty)', w, outs, f'{mrecv.qname}::empty')
    if oc is not None:
        ctx.require(oc.kind == 'return' and oc.value is None and not any(e[0] == 'sleep' for e in oc.log), 'R11.6', 'MultiPort.poll(empty)', w,
                    f'{oc}', construct=f'{mrecv.qname}::empty')
    # MultiPort.send reaches every open child exactly once
    holder = {}

    def thunk_s():
        e1 = pm.new_port(ai, ctx, 'EchoPort', [], {})
        e2 = pm.new_port(ai, ctx, 'EchoPort', [], {})
        e3 = pm.new_port(ai, ctx, 'EchoPort', [], {})
        pm.call(ai, ctx, e3, 'close')
        multi = pm.new_port(ai, ctx, 'MultiPort', [[e1, e2, e3]], {})
        m = pm.note(ctx, 9)
        pm.call(ai, ctx, multi, 'send', [m])
        holder.update(e1=e1, e2=e2, e3=e3, m=m)
        return multi
    outs = ai.explore(thunk_s)
    o, msend = ctx.p.lookup_method(mp, '_send')
    oc = one(ctx, 'R10.6', 'MultiPort.send', ctx.where(msend), outs, f'{msend.qname}::fan-out')
    if oc is not None:
        q1, q2, q3 = (holder[k].attrs['_messages'].items for k in ('e1', 'e2', 'e3'))
        ok = oc.kind == 'return' and len(q1) == 1 and len(q2) == 1 and not q3 and q1[0] is not holder['m'] and q1[0] is not q2[0] \
            and q1[0].attrs == holder['m'].attrs
        ctx.require(ok, 'R10.6', 'MultiPort.send', ctx.where(msend), f'fan-out gives queues {q1} {q2} {q3}', construct=f'{msend.qname}::fan-out')
    # IOPort wrapper
    io = ctx.p.cls(P, 'IOPort')
    o, ioclose = ctx.p.lookup_method(io, '_close')
    holder = {}

    def thunk_io():
        i = pm.new_port(ai, ctx, 'BaseInput', [], {})
        o_ = pm.new_port(ai, ctx, 'BaseOutput', [], {})
        m1 = pm.note(ctx, 1)
        i.attrs['_messages'].items.append(m1)
        port = pm.new_port(ai, ctx, 'IOPort', [i, o_], {})
        pm.call(ai, ctx, port, 'close')
        pm.call(ai, ctx, port, 'close')
        holder.update(i=i, o=o_, port=port, m1=m1)
        a = pm.call(ai, ctx, port, 'poll')
        b = pm.call(ai, ctx, port, 'poll')
        it = pm.call(ai, ctx, port, '__iter__')
        return a, b, it
    outs = ai.explore(thunk_io)
    oc = one(ctx, 'R11.1', 'IOPort.close', ctx.where(ioclose), outs, f'{ioclose.qname}::wrapper')
    if oc is not None:
        ok = oc.kind == 'return' and holder['i'].attrs.get('closed') is True and holder['o'].attrs.get('closed') is True \
            and holder['port'].attrs.get('closed') is True and len(pm.device_events(oc.log, '_close')) == 2 \
            and oc.value[0] is holder['m1'] and oc.value[1] is None and isinstance(oc.value[2], AList) and not oc.value[2].items
        ctx.require(ok, 'R11.1', 'IOPort.close', ctx.where(ioclose),
                    f'closing the wrapper twice: {len(pm.device_events(oc.log, "_close")) if oc.kind == "return" else oc} releases; '
                    f'then poll, poll, iterate = {oc.value if oc.kind == "return" else oc}', construct=f'{ioclose.qname}::wrapper')

    def thunk_io2():
        i = pm.new_port(ai, ctx, 'BaseInput', [], {})
        o_ = pm.new_port(ai, ctx, 'BaseOutput', [], {})
        port = pm.new_port(ai, ctx, 'IOPort', [i, o_], {})
        pm.call(ai, ctx, port, 'close')
        pm.call(ai, ctx, port, 'send', [pm.note(ctx)])
    outs = ai.explore(thunk_io2)
    ctx.require(bool(outs) and all(o_.kind == 'raise' and o_.exc == 'ValueError' for o_ in outs), 'R11.3', 'IOPort.send(closed)',
                ctx.where(ioclose), f'{outs}', construct=f'{io.qname}::send-closed')
    # the wrapper over an input whose device closes the INPUT port inside _receive (after k messages): iterating the wrapper ends
    # quietly with exactly those messages, like iterating the input itself
    for k in (0, 2):
        ai5 = pm.make_interp(ctx)
        st5 = {}

        def on_receive5(interp, port, block):
            st5['n'] = st5.get('n', 0) + 1
            if st5['n'] <= k:
                return st5['msgs'][st5['n'] - 1]
            pm.call(interp, ctx, port, 'close')
            return None
        pm.device_double(ai5, ctx, on_receive=on_receive5)

        def thunk_io3():
            st5.clear()
            st5['msgs'] = [pm.note(ctx, 20 + i) for i in range(k)]
            i_ = pm.new_port(ai5, ctx, 'BaseInput', [], {})
            o_ = pm.new_port(ai5, ctx, 'BaseOutput', [], {})
            port = pm.new_port(ai5, ctx, 'IOPort', [i_, o_], {})
            return pm.call(ai5, ctx, port, '__iter__')
        outs = ai5.explore(thunk_io3)
        o5, ioiter = ctx.p.lookup_method(io, '__iter__')
        wio = ctx.where(ioiter) if ioiter is not None else ctx.where(ioclose)
        oc = one(ctx, 'R11.5', f'iterate(IOPort, input closes itself after {k})', wio, outs, f'{io.qname}::__iter__::input-closes')
        if oc is not None:
            ok = oc.kind == 'return' and isinstance(oc.value, AList) and len(oc.value.items) == k and all(a is b for a, b in zip(oc.value.items, st5['msgs']))
            ctx.require(ok, 'R11.5', f'iterate(IOPort, input closes itself after {k})', wio,
                        f'the wrapped input port closes inside receive() after {k} messages; iterating the wrapper gives {oc}',
                        construct=f'{io.qname}::__iter__::input-closes')
        for q in ai5.inlined:
            ctx.functions.add(q)
    # a child port that closed while it still held messages: the MultiPort hands them out (non-blocking and blocking)
    for block in (False, True):
        holder = {}

        def thunk_mc():
            e1 = pm.new_port(ai, ctx, 'EchoPort', [], {})
            m_ = pm.note(ctx, 31)
            holder['m'] = m_
            pm.call(ai, ctx, e1, 'send', [m_])
            pm.call(ai, ctx, e1, 'close')
            multi = pm.new_port(ai, ctx, 'MultiPort', [[e1]], {})
            ai.sleeps = 0
            return pm.call(ai, ctx, multi, 'receive', [], {'block': block})
        outs = ai.explore(thunk_mc)
        lab = 'blocking' if block else 'non-blocking'
        oc = one(ctx, 'R11.4', f'MultiPort.receive({lab}, closed child holds a message)', w, outs, f'{mrecv.qname}::closed-child')
        if oc is not None:
            ok = oc.kind == 'return' and isinstance(oc.value, AObj) and oc.value.attrs == holder['m'].attrs
            ctx.require(ok, 'R11.4', f'MultiPort.receive({lab}, closed child holds a message)', w,
                        f'a child port closed with one message taken in; the MultiPort gives {oc} (every message taken in must be handed out)',
                        construct=f'{mrecv.qname}::closed-child')
    # EchoPort: what is sent can be received, iteration ends
    holder = {}

    def thunk_echo():
        e = pm.new_port(ai, ctx, 'EchoPort', [], {})
        m = pm.note(ctx, 3)
        holder['m'] = m
        pm.call(ai, ctx, e, 'send', [m])
        pm.call(ai, ctx, e, 'send', [m])
        return pm.call(ai, ctx, e, '__iter__')
    outs = ai.explore(thunk_echo)
    ec = ctx.p.cls(P, 'EchoPort')
    oc = one(ctx, 'R11.4', 'EchoPort', f'{ec.module.relpath}:{ec.node.lineno} EchoPort', outs, f'{ec.qname}::echo')
    if oc is not None:
        ok = oc.kind == 'return' and isinstance(oc.value, AList) and len(oc.value.items) == 2 and all(
            isinstance(x, AObj) and x is not holder['m'] and x.attrs == holder['m'].attrs for x in oc.value.items) \
            and oc.value.items[0] is not oc.value.items[1]
        ctx.require(ok, 'R11.4', 'EchoPort', f'{ec.module.relpath}:{ec.node.lineno} EchoPort', f'{oc}', construct=f'{ec.qname}::echo')
    for q in ai.inlined:
        ctx.functions.add(q)


def r11_server(ctx):
    """Blocking receive on PortServer (a MultiPort) returns as soon as a message is deliverable (shared with C18 R18.4)."""
    from . import c18
    before = len(ctx.obligations)
    c18.r18_4(ctx)
    for o in ctx.obligations[before:]:
        o.rule = 'R11.6' if o.rule in ('R18.4', 'R18.3') else o.rule


def r11_socket(ctx):
    """Socket ports: a non-blocking receive never waits (every read follows a positive readability poll), iteration ends
    quietly at end of stream and the port reports closed (shared with C18 R18.1)."""
    from . import c18
    ctx.borrow(c18.r18_1, 'R11.7')
    # "returns as soon as a message is deliverable": complete messages on a connection that stays open (shared with C18 R18.6)
    ctx.borrow(c18.r18_live, 'R11.7')


def r11_broken_pipe(ctx):
    """Socket ports whose peer has gone (every write fails with EPIPE, and _send reacts by closing the port): close() - with and
    without autoreset, directly or through a failing send - still returns, releases socket and files exactly once and leaves the
    port closed; a second close does nothing."""
    from . import c18
    ai = pm.make_interp(ctx)
    c18.install_select(ai)
    sp = ctx.p.cls(c18.S, 'SocketPort')
    o, close = ctx.p.lookup_method(sp, 'close')
    ctx.fn(close)
    w = ctx.where(close)
    n = 0
    for autoreset in (False, True):
        for first in ('close', 'send'):
            holder = {}

            def thunk():
                port, conn = c18.build(ai, ctx, [c18.GAP])
                conn.state['broken_pipe'] = True
                port.attrs['autoreset'] = autoreset
                holder.update(port=port, conn=conn)
                if first == 'send':
                    try:
                        pm.call(ai, ctx, port, 'send', [pm.note(ctx, 7)])
                    except AbsRaise as e:
                        holder['send_exc'] = e.exc
                pm.call(ai, ctx, port, 'close')
                pm.call(ai, ctx, port, 'close')
                return port
            outs = ai.explore(thunk)
            n += 1
            inst = f'SocketPort(autoreset={autoreset}), peer gone: {"send; " if first == "send" else ""}close; close'
            cons = f'{sp.qname}::broken-pipe::{"autoreset" if autoreset else "plain"}'
            if len(outs) != 1 or outs[0].kind != 'return':
                ctx.fail('R11.2' if autoreset else 'R11.1', inst, w, f'close() on a port whose peer has disconnected: {outs} '
                         '(a failing reset re-enters close() through _send; the device is never released)', construct=cons)
                continue
            closed = sorted(holder['conn'].state['closed'])
            ok = closed == ['rfile', 'socket', 'wfile'] and holder['port'].attrs.get('closed') is True and \
                (first != 'send' or holder.get('send_exc') == 'OSError')
            ctx.require(ok, 'R11.2' if autoreset else 'R11.1', inst, w,
                        f'released {closed}, closed = {holder["port"].attrs.get("closed")!r}, send raised {holder.get("send_exc")!r}; expected socket and both '
                        'files closed once each, closed = True (send: OSError)', construct=cons)
    ctx.floor('R11-broken-pipe', n, 4)
    for q in ai.inlined:
        ctx.functions.add(q)


def r11_second_port(ctx):
    """close() sends the reset messages - for the second port of the process as for the first, and for a second reset() of one
    port: reset() is interpreted twice on one port and then on another, 32 messages each time; and no module-level table of the
    package is a one-shot iterator that the first use would leave empty (shared with C16 R16.4)."""
    from . import c16
    ctx.borrow(c16.r16_4, 'R11.11')
    ai = pm.make_interp(ctx)
    sent = []
    pm.device_double(ai, ctx, on_send=lambda interp, port, msg: sent.append((port, msg)))
    holder = {}

    def thunk():
        del sent[:]
        a = pm.new_port(ai, ctx, 'BaseOutput', [], {'autoreset': True})
        b = pm.new_port(ai, ctx, 'BaseOutput', [], {'autoreset': True})
        pm.call(ai, ctx, a, 'reset')
        n1 = len(sent)
        pm.call(ai, ctx, a, 'reset')
        n2 = len(sent)
        pm.call(ai, ctx, a, 'close')
        n3 = len(sent)
        pm.call(ai, ctx, b, 'close')
        return n1, n2 - n1, n3 - n2, len(sent) - n3
    outs = ai.explore(thunk)
    o, rs = ctx.p.lookup_method(ctx.p.cls(P, 'BaseOutput'), 'reset')
    ok = len(outs) == 1 and outs[0].kind == 'return' and tuple(outs[0].value) == (32, 32, 32, 32)
    ctx.require(ok, 'R11.11', 'reset, reset again, close (autoreset), close of a second port', ctx.where(rs),
                f'messages sent by the four resets: {outs[0].value if len(outs) == 1 and outs[0].kind == "return" else outs}; 32 each time '
                '(all notes off + reset all controllers on 16 channels)', construct=f'{rs.qname}::every-time')
    for q in ai.inlined:
        ctx.functions.add(q)


def r11_multi_child_fails(ctx):
    """A MultiPort whose child fails while it is polled: what the MultiPort had already taken out of the other children is not
    lost - the error comes out of the call, and the next receive hands the messages out."""
    mp = ctx.p.cls(P, 'MultiPort')
    o, mrecv = ctx.p.lookup_method(mp, '_receive')
    ctx.fn(mrecv)
    w = ctx.where(mrecv)
    n = 0
    for order in ('good first', 'failing first'):
        for how in ('poll', 'receive'):
            n += 1
            ai = pm.make_interp(ctx)
            holder = {'armed': True}

            def on_receive(interp, port, block):
                if port is holder.get('bad') and holder['armed']:
                    holder['armed'] = False
                    raise AbsRaise('OSError', None)
                return None
            pm.device_double(ai, ctx, on_receive=on_receive)

            def thunk():
                holder['armed'] = True
                good = pm.new_port(ai, ctx, 'BaseInput', [], {})
                bad = pm.new_port(ai, ctx, 'BaseInput', [], {})
                holder['bad'] = bad
                m1, m2 = pm.note(ctx, 1), pm.note(ctx, 2)
                good.attrs['_messages'].items.extend([m1, m2])
                holder['msgs'] = [m1, m2]
                multi = pm.new_port(ai, ctx, 'MultiPort', [[good, bad] if order == 'good first' else [bad, good]], {})
                ai.sleeps = 0
                try:
                    first = pm.call(ai, ctx, multi, 'poll') if how == 'poll' else pm.call(ai, ctx, multi, 'receive', [], {'block': True})
                except AbsRaise as ex:
                    first = ('raise', ex.exc)
                rest = [pm.call(ai, ctx, multi, 'poll') for _ in range(3)]
                return first, rest
            outs = ai.explore(thunk)
            inst = f'MultiPort.{how}, a child raises OSError when polled ({order})'
            oc = one(ctx, 'R11.10', inst, w, outs, f'{mrecv.qname}::child-fails')
            if oc is None:
                continue
            ok = oc.kind == 'return'
            if ok:
                first, rest = oc.value
                got = ([] if isinstance(first, tuple) or first is None else [first]) + [x for x in rest if x is not None]
                ok = len(got) == 2 and all(isinstance(x, AObj) and x.attrs == m.attrs for x, m in zip(got, holder['msgs']))
            ctx.require(ok, 'R11.10', inst, w,
                        f'two messages were pending in the other child; the failing call and three polls afterwards give {oc}: both must still come out, in order',
                        construct=f'{mrecv.qname}::child-fails')
            for q in ai.inlined:
                ctx.functions.add(q)
    ctx.floor('R11.10', n, 4)


def r11_multi_oneshot(ctx, rule='R11.9'):
    """A MultiPort may be built from any iterable of ports (a generator expression, map(open_input, names)): it must keep its
    ports beyond the first call.  Two polls with a message arriving in between, and two sends, on a MultiPort made from a
    one-shot iterator of two echo ports."""
    mp = ctx.p.cls(P, 'MultiPort')
    o, init = ctx.p.lookup_method(mp, '__init__')
    w = ctx.where(init) if init is not None else f'{mp.module.relpath}:{mp.node.lineno} MultiPort'
    cons = f'{mp.qname}::ports-from-iterator'
    for kind in ('iterator', 'tuple'):
        ai = pm.make_interp(ctx)
        pm.device_double(ai, ctx)

        def thunk(kind=kind):
            e1 = pm.new_port(ai, ctx, 'EchoPort', [], {})
            e2 = pm.new_port(ai, ctx, 'EchoPort', [], {})
            multi = pm.new_port(ai, ctx, 'MultiPort', [AList([e1, e2], kind)], {})
            first = pm.call(ai, ctx, multi, 'poll')
            pm.call(ai, ctx, e2, 'send', [pm.note(ctx, 9)])
            second = pm.call(ai, ctx, multi, 'poll')
            pm.call(ai, ctx, multi, 'send', [pm.note(ctx, 1)])
            pm.call(ai, ctx, multi, 'send', [pm.note(ctx, 2)])
            got1 = [m.attrs.get('note') for m in e1.attrs['_messages'].items]
            got2 = [m.attrs.get('note') for m in e2.attrs['_messages'].items]
            return first, second, got1, got2
        outs = ai.explore(thunk)
        oc = one(ctx, rule, f'MultiPort({kind} of two ports): poll, poll, send, send', w, outs, cons)
        if oc is None:
            continue
        if oc.kind != 'return':
            ctx.fail(rule, f'MultiPort({kind} of two ports): poll, poll, send, send', w, f'{oc}', construct=cons)
            continue
        first, second, got1, got2 = oc.value
        ok = first is None and isinstance(second, AObj) and second.attrs.get('note') == 9 and got1 == [1, 2] and got2 == [1, 2]
        ctx.require(ok, rule, f'MultiPort({kind} of two ports): poll, poll, send, send', w,
                    f'first poll {first!r}, second poll (after a message arrived in the second port) {second!r}; the two sends reached the children as '
                    f'{got1} and {got2} - expected None, the message, [1, 2] and [1, 2] (a one-shot iterable of ports is used up by the first call)',
                    construct=cons)
        for q in ai.inlined:
            ctx.functions.add(q)


def r11_reset_via_send(ctx):
    """R11.8: reset(), panic() and the autoreset of close() hand their messages to send() - the method a port type may override
    (the RtMidi and amidi outputs override send(), not the _send() hook).  send() is replaced by a recording double here: a
    reset that writes to the device hook directly never reaches such a port, and its close() releases the device without the
    reset messages the caller asked for."""
    out = ctx.p.cls(P, 'BaseOutput')
    o, sendf = ctx.p.lookup_method(out, 'send')
    if sendf is None:
        raise AnalysisError('BaseOutput.send not found')
    n = 0
    for meth, want, kw in (('reset', 32, {}), ('panic', 16, {}), ('close', 32, {'autoreset': True})):
        ai = pm.make_interp(ctx)
        pm.device_double(ai, ctx)
        sent = []

        def s_send(interp, args, kwargs, node, sent=sent):
            sent.append(args[1] if len(args) > 1 else None)
            log_event('mock', 'send-double', 'send', args[1:], {})
            return None
        ai.summaries[sendf.qname] = s_send
        o2, fn = ctx.p.lookup_method(out, meth)
        if fn is None:
            continue
        ctx.fn(fn)

        def thunk(meth=meth, kw=kw, sent=sent):
            del sent[:]
            port = pm.new_port(ai, ctx, 'BaseOutput', [], dict(kw))
            return pm.call(ai, ctx, port, meth)
        outs = ai.explore(thunk)
        n += 1
        w = ctx.where(fn)
        ok = len(outs) == 1 and outs[0].kind == 'return'
        direct = pm.device_events(outs[0].log, '_send') if ok else []
        ctx.require(ok and len(sent) == want and not direct, 'R11.8', f'{meth}({"autoreset" if kw else ""}).through-send', w,
                    f'{meth}() hands {len(sent)} messages to send() and {len(direct)} straight to the device hook, expected {want} through send(): '
                    f'{outs if not ok else ""} (a port type that overrides send() would not see them)', construct=f'{fn.qname}::bypasses-send')
        if ok and meth == 'close':
            evs = [e for e in outs[0].log if (e[0] == 'mock' and e[1] == 'send-double') or (e[0] == 'device' and e[1] == '_close')]
            order_ok = [e[0] for e in evs] == ['mock'] * want + ['device']
            ctx.require(order_ok, 'R11.8', 'close(autoreset).order', w, 'the device is not released after the reset messages, once',
                        construct=f'{fn.qname}::reset-then-release')
    ctx.floor('R11.8', n, 3)


def r11_abandoned(ctx):
    """Hands out every message the port had already taken in - also to the caller after the one that stopped consuming a
    generator half way (iter_pending, iteration, multi_receive with and without yield_ports): what was not taken stays in the
    port's queue (shared with C10 R10.9)."""
    from . import c10
    ctx.borrow(c10.r10_abandoned, 'R11.12')


def r11_returning_device(ctx):
    """The device hook may hand a message back instead of queueing it (docs/ports/custom.rst): every way of asking - receive(),
    poll(), iter_pending(), iteration, and a MultiPort polling the port - hands that message out; none of them drops it."""
    inp = ctx.p.cls(P, 'BaseInput')
    o, recv = ctx.p.lookup_method(inp, 'receive')
    w = ctx.where(recv)
    n = 0
    for how in ('receive(block=False)', 'poll()', 'iter_pending()', 'MultiPort.poll()'):
        ai = pm.make_interp(ctx)
        script = {'left': 2}

        def on_receive(interp, port, block, script=script):
            if script['left']:
                script['left'] -= 1
                return pm.note(ctx, 7 - script['left'])
            return None
        pm.device_double(ai, ctx, on_receive=on_receive)

        def thunk(how=how):
            script['left'] = 2
            port = pm.new_port(ai, ctx, 'BaseInput', [], {})
            ai.sleeps = 0
            got = []
            if how == 'receive(block=False)':
                got = [pm.call(ai, ctx, port, 'receive', [], {'block': False}) for _ in range(3)]
            elif how == 'poll()':
                got = [pm.call(ai, ctx, port, 'poll') for _ in range(3)]
            elif how == 'iter_pending()':
                got = list(ai.iterate(pm.call(ai, ctx, port, 'iter_pending'), None)) + [None]
            else:
                multi = pm.new_port(ai, ctx, 'MultiPort', [[port]], {})
                got = [pm.call(ai, ctx, multi, 'poll') for _ in range(3)]
            return [x.attrs.get('note') if isinstance(x, AObj) else x for x in got]
        outs = ai.explore(thunk)
        n += 1
        ok = len(outs) == 1 and outs[0].kind == 'return' and list(outs[0].value) == [6, 7, None]
        ctx.require(ok, 'R11.14', f'a device whose _receive() returns its messages, asked through {how}', w,
                    f'the device hands back two messages (notes 6 and 7), {how} gives {outs[0].value if len(outs) == 1 and outs[0].kind == "return" else outs!r}; '
                    'expected 6, 7, then nothing', construct=f'{recv.qname}::returned-message')
        for qn in ai.inlined:
            ctx.functions.add(qn)
    ctx.floor('R11.14', n, 4)


def r11_unbounded_queues(ctx):
    """Hand out every message the port had taken in: the queue every kind of port keeps them in is unbounded - the parser's
    own deque for ports that parse, and no port swaps it for a bounded one (a full bounded deque silently drops the oldest
    message; a server that is polled rarely would lose what a client sent in one go)."""
    from . import c18
    n = 0
    for kind, build_ in (('BaseInput', lambda ai: pm.new_port(ai, ctx, 'BaseInput', [], {})), ('BaseIOPort', lambda ai: pm.new_port(ai, ctx, 'BaseIOPort', [], {})),
                         ('EchoPort', lambda ai: pm.new_port(ai, ctx, 'EchoPort', [], {})),
                         ('MultiPort', lambda ai: pm.new_port(ai, ctx, 'MultiPort', [[pm.new_port(ai, ctx, 'EchoPort', [], {})]], {})),
                         ('SocketPort', lambda ai: c18.build(ai, ctx, [])[0]),
                         ('PortServer', lambda ai: pm.new_port(ai, ctx, 'PortServer', ['localhost', 9080], {}, module=c18.S))):
        ai = pm.make_interp(ctx)
        pm.device_double(ai, ctx)
        c18.install_select(ai)
        ai.summaries['socket.socket'] = lambda i_, a_, k_, n_: pm.AMock('server-socket', {})
        outs = ai.explore(lambda: build_(ai))
        n += 1
        q = outs[0].value.attrs.get('_messages') if len(outs) == 1 and outs[0].kind == 'return' and isinstance(outs[0].value, AObj) else None
        ok = isinstance(q, AList) and q.kind == 'deque' and getattr(q, 'maxlen', None) is None
        cls_ = ctx.p.cls(c18.S if kind in ('SocketPort', 'PortServer') else P, kind)
        ctx.require(ok, 'R11.15', f'{kind}: the queue of pending messages', f'{cls_.module.relpath}:{cls_.node.lineno} {kind}',
                    f'a new {kind} keeps its pending messages in {q!r} (maxlen {getattr(q, "maxlen", "?")!r}); expected an unbounded deque',
                    construct=f'{cls_.qname}::bounded-queue')
    ctx.floor('R11.15', n, 6)


def r11_closed_elsewhere(ctx):
    """Iteration ends without an exception whether the port closed before, between or inside receive calls - also when it is
    closed by someone else while the caller waits on a connection that is still up (shared with C18 R18.10)."""
    from . import c18
    ctx.borrow(c18.r18_closed_elsewhere, 'R11.13')


RULES = [('R11.15', r11_unbounded_queues), ('R11.14', r11_returning_device), ('R11.13', r11_closed_elsewhere), ('R11.12', r11_abandoned), ('R11.11', r11_second_port), ('R11.10', r11_multi_child_fails), ('R11.9', r11_multi_oneshot), ('R11.8', r11_reset_via_send), ('R11-broken-pipe', r11_broken_pipe), ('R11-socket', r11_socket), ('R11-server', r11_server), ('R11-close', r11_close), ('R11-send', r11_send), ('R11-receive', r11_receive), ('R11-multi', r11_multi)]
