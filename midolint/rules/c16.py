"""C16 - a MidiFile always reflects its current contents."""
from __future__ import annotations

import ast

from .. import astq, smf, wire
from ..absint import AList, AObj, Opaque
from ..poly import Poly
from ..model import AnalysisError, unparse

LEVEL = 'other'
EXPLANATION = (
    'Decided by an observer-purity / no-derived-state argument plus abstract observe-edit-observe scenarios.  (R16.1) in class '
    'MidiFile no method outside __init__/_load stores an instance attribute, no method is wrapped in a caching decorator, and '
    'no attribute is assigned from an expression that reads self.tracks/self.type/self.ticks_per_beat (tracks is a plain public '
    'list of plain lists of mutable messages, so no edit can be intercepted and any memo goes stale).  (R16.2) the observers '
    '(__iter__, length, merged_track, play, _save, print_tracks, __repr__) leave self and everything reachable from self.tracks '
    'unmodified: they are abstractly interpreted and no store on the file, a track or a message may be logged.  (R16.3) '
    'observe - edit - observe: iteration / length / merged_track / save are interpreted on an abstract file, then the file is '
    'edited through each documented route (tracks.append, add_track, track.append, message time assignment, ticks_per_beat, '
    'type) and the second observation must equal the observation of a freshly built file with the same contents.')
TRUSTED = ['midolint abstract interpreter, polynomial domain', 'C12 (merge_tracks purity), C07 (writer)']
ASSUMPTIONS = ['edits go through the documented routes (list operations, attribute assignment)']

MF = smf.MF
OBSERVERS = ['__iter__', 'length', 'merged_track', 'play', '_save', 'save', 'print_tracks', '__repr__']
CACHE_DECOS = {'cached_property', 'lru_cache', 'cache', 'functools.cached_property', 'functools.lru_cache', 'functools.cache'}


def _users_of(ctx, fn):
    from .c03 import _users_of as u
    return u(ctx, fn)


def r16_1(ctx):
    cls = ctx.p.cls(MF, 'MidiFile')
    w0 = f'{cls.module.relpath}:{cls.node.lineno} MidiFile'
    n = 0
    # construction: __init__ and the private methods only it (or another such method) uses - they fill in the state of the
    # object that is being made, from the file, not from contents that are edited later
    loaders = {'__init__'}
    changed = True
    while changed:
        changed = False
        for name, fn in cls.methods.items():
            if name in loaders or not name.startswith('_') or name.startswith('__'):
                continue
            users = _users_of(ctx, fn)
            if users and all(u.cls is cls and u.name in loaders for u in users):
                loaders.add(name)
                changed = True
    for name, fn in cls.methods.items():
        ctx.fn(fn)
        n += 1
        for d in fn.node.decorator_list:
            dn = unparse(d.func) if isinstance(d, ast.Call) else unparse(d)
            ctx.require(dn not in CACHE_DECOS, 'R16.1', f'{name}.decorator', ctx.where(fn),
                        f'@{dn} caches a value derived from the file contents; edits to tracks/messages cannot invalidate it',
                        construct=f'{fn.qname}::cache-decorator')
        if name in loaders:
            continue
        for t, st in astq.stores_in(fn.node):
            if isinstance(t, ast.Attribute) and isinstance(t.value, ast.Name) and t.value.id == 'self':
                ctx.fail('R16.1', f'{name}.stores({t.attr})', ctx.where(fn, st),
                         f'MidiFile.{name} stores self.{t.attr}: state derived from (or shadowing) the contents that later edits do not update',
                         construct=f'{fn.qname}::stores(self.{t.attr})')
        # function-attribute / module-global memo
        for node in astq.walk_shallow(fn.node):
            if isinstance(node, (ast.Global, ast.Nonlocal)):
                ctx.fail('R16.1', f'{name}.global', ctx.where(fn, node), 'uses global state', construct=f'{fn.qname}::global')
    ctx.floor('R16.1-methods', n, 10)
    init = cls.methods.get('__init__')
    for t, st in astq.stores_in(init.node):
        if isinstance(t, ast.Attribute) and isinstance(st, ast.Assign):
            reads = {unparse(x) for x in ast.walk(st.value) if isinstance(x, ast.Attribute)}
            derived = [r for r in reads if r in ('self.tracks', 'self.type', 'self.ticks_per_beat')]
            ctx.require(not derived or t.attr in ('tracks',), 'R16.1', f'__init__.{t.attr}', ctx.where(init, st),
                        f'self.{t.attr} is computed from {derived} at construction time', construct=f'{init.qname}::derived({t.attr})')


def _mk_file(ctx, ai, tracks_spec, tpb=None, type_=1):
    cls = ctx.p.cls(MF, 'MidiFile')
    tracks = []
    for tr in tracks_spec:
        msgs = []
        for kind, t, k in tr:
            if kind == 'n':
                m = wire.make_message(ctx, 'note_on', {'channel': 0, 'note': k, 'velocity': 64}, t)
            else:
                m = wire.make_meta(ai, ctx, 'end_of_track', {}, t)
            msgs.append(m)
        tracks.append(AList(msgs, 'MidiTrack'))
        tracks[-1].cls = ctx.p.cls('mido.midifiles.tracks', 'MidiTrack')
    from ..fold import ClassRef
    return ai.apply(ClassRef(cls), [], {'type': type_, 'ticks_per_beat': tpb if tpb is not None else 480, 'tracks': AList(tracks, 'list')}, None)


def _observe(ai, ctx, mf, what):
    cls = mf.cls
    o, fn = ctx.p.lookup_method(cls, what)
    if fn is None:
        raise AnalysisError(f'MidiFile.{what} not found')
    ctx.fn(fn)
    if what == 'save':
        out = wire.AFile(name='out')
        ai.call_function(fn, [mf], {'file': out})
        import re
        return [re.sub(r'#\d+', '', repr(x)) for x in out.written]
    r = ai.consume(ai.call_function(fn, [mf], {}))
    if isinstance(r, AList):
        return [(x.attrs.get('type'), x.attrs.get('note'), x.attrs.get('time')) if isinstance(x, AObj) else repr(x) for x in r.items]
    return r


EDITS = {
    'tracks.append': (lambda ai, ctx, mf: mf.attrs['tracks'].items.append(_mk_file(ctx, ai, [[('n', 7, 9)]]).attrs['tracks'].items[0]),
                      [[('n', 10, 1), ('n', 5, 2)], [('n', 7, 9)]], {}),
    'add_track': (lambda ai, ctx, mf: ai.call_function(ctx.p.lookup_method(mf.cls, 'add_track')[1], [mf], {}),
                  [[('n', 10, 1), ('n', 5, 2)], []], {}),
    'track.append': (lambda ai, ctx, mf: mf.attrs['tracks'].items[0].items.append(wire.make_message(ctx, 'note_on', {'channel': 0, 'note': 3, 'velocity': 64}, 20)),
                     [[('n', 10, 1), ('n', 5, 2), ('n', 20, 3)]], {}),
    'del tracks[0][0]': (lambda ai, ctx, mf: mf.attrs['tracks'].items[0].items.pop(0), [[('n', 5, 2)]], {}),
    'msg.time = 40': (lambda ai, ctx, mf: mf.attrs['tracks'].items[0].items[0].attrs.__setitem__('time', 40),
                      [[('n', 40, 1), ('n', 5, 2)]], {}),
    'ticks_per_beat = 960': (lambda ai, ctx, mf: mf.attrs.__setitem__('ticks_per_beat', 960), [[('n', 10, 1), ('n', 5, 2)]], {'tpb': 960}),
    'type = 0': (lambda ai, ctx, mf: mf.attrs.__setitem__('type', 0), [[('n', 10, 1), ('n', 5, 2)]], {'type_': 0}),
}


def r16_3(ctx):
    ai = smf.make_interp(ctx)
    cls = ctx.p.cls(MF, 'MidiFile')
    base_spec = [[('n', 10, 1), ('n', 5, 2)]]
    n = 0
    for obs in ('__iter__', 'length', 'merged_track', 'save'):
        o, fn = ctx.p.lookup_method(cls, obs)
        if fn is None:
            raise AnalysisError(f'MidiFile.{obs} not found')
        w = ctx.where(fn)
        for ename, (edit, after_spec, kw) in EDITS.items():
            n += 1

            def thunk():
                mf = _mk_file(ctx, ai, base_spec)
                first = _observe(ai, ctx, mf, obs)
                if obs != 'length':
                    _observe(ai, ctx, mf, 'length')
                edit(ai, ctx, mf)
                second = _observe(ai, ctx, mf, obs)
                fresh = _observe(ai, ctx, _mk_file(ctx, ai, after_spec, **kw), obs)
                return first, second, fresh
            outs = ai.explore(thunk)
            inst = f'{obs}; {ename}; {obs}'
            cons = f'{fn.qname}::stale-after({ename})'
            if len(outs) != 1 or outs[0].kind != 'return':
                ctx.fail('R16.3', inst, w, f'observe-edit-observe does not complete on one path: {outs}', construct=cons)
                continue
            first, second, fresh = outs[0].value
            ctx.require(second == fresh, 'R16.3', inst, w,
                        f'after the edit {obs} gives {second!r}; a freshly built file with the same contents gives {fresh!r}', construct=cons)
    ctx.floor('R16.3', n, 28)
    for q in ai.inlined:
        ctx.functions.add(q)


def r16_2(ctx, observers=('__iter__', 'length', 'merged_track', 'save', '__repr__'), floor=5):
    """Observers are pure."""
    ai = smf.make_interp(ctx)
    from .. import strdom
    strdom.install(ai)          # __repr__ builds text from the (symbolic) contents
    cls = ctx.p.cls(MF, 'MidiFile')
    ai.summaries['print'] = lambda i, a, k, n: None
    n = 0
    for obs in observers:
        o, fn = ctx.p.lookup_method(cls, obs)
        if fn is None:
            continue
        holder = {}

        def thunk():
            mf = _mk_file(ctx, ai, [[('n', 10, 1), ('e', 3, 0), ('n', 5, 2)], [('n', 1, 3)]])
            mf.stores.clear()
            holder['mf'] = mf
            holder['snap'] = (dict(mf.attrs), [list(t.items) for t in mf.attrs['tracks'].items],
                              [dict(m.attrs) for t in mf.attrs['tracks'].items for m in t.items])
            try:
                _observe(ai, ctx, mf, obs)
            except Exception:
                raise
            return mf
        outs = ai.explore(thunk)
        n += 1
        if len(outs) != 1 or outs[0].kind != 'return':
            ctx.fail('R16.2', f'{obs}.pure', ctx.where(fn), f'{outs}', construct=f'{fn.qname}::outcomes')
            continue
        mf = holder['mf']
        a0, t0, m0 = holder['snap']
        same = mf.attrs == a0 and [list(t.items) for t in mf.attrs['tracks'].items] == t0 and \
            [dict(m.attrs) for t in mf.attrs['tracks'].items for m in t.items] == m0 and not mf.stores
        ctx.require(same, 'R16.2', f'{obs}.pure', ctx.where(fn), f'{obs} modifies the file, a track or a message', construct=f'{fn.qname}::modifies-contents')
    ctx.floor('R16.2', n, floor)


def r16_6(ctx):
    """What an observation hands out is the caller's to keep: the messages of merged_track / iteration are new objects, never the
    file's own (with one track as with several) - so that working on a result cannot edit the file behind its back and change
    what the next observation says.  Also: a (still empty) list given as tracks= IS the file's track list - tracks added to it
    afterwards are in the file."""
    ai = smf.make_interp(ctx)
    cls = ctx.p.cls(MF, 'MidiFile')
    from ..fold import ClassRef
    for obs in ('merged_track', '__iter__'):
        o, fn = ctx.p.lookup_method(cls, obs)
        if fn is None:
            continue
        w = ctx.where(fn)
        for label, spec, type_ in (('one track, type 0', [[('n', 3, 1), ('n', 0, 2), ('eot', 4, None)]], 0),
                                   ('one track, type 1', [[('n', 3, 1), ('n', 0, 2)]], 1),
                                   ('two tracks', [[('n', 3, 1)], [('n', 0, 2), ('eot', 9, None)]], 1)):
            holder = {}

            def thunk(spec=spec, type_=type_, fn=fn):
                mf = _mk_file(ctx, ai, spec, type_=type_)
                holder['own'] = [m for t in mf.attrs['tracks'].items for m in t.items]
                return ai.consume(ai.call_function(fn, [mf], {}))
            outs = ai.explore(thunk)
            ok = len(outs) == 1 and outs[0].kind == 'return' and isinstance(outs[0].value, AList)
            shared = [x for x in (outs[0].value.items if ok else []) if any(x is m for m in holder.get('own', []))]
            ctx.require(ok and not shared, 'R16.6', f'{obs}({label}).independent', w,
                        f'{obs} hands out {len(shared)} message object(s) that are the file\'s own ({outs if not ok else ""}): changing a result changes the file, '
                        'and the next observation differs although no edit was made', construct=f'{fn.qname}::shares-messages')
    # MidiFile(tracks=<empty list>) then tracks added through that list
    o, it = ctx.p.lookup_method(cls, '__iter__')
    o, init = ctx.p.lookup_method(cls, '__init__')

    def thunk2():
        lst = AList([], 'list')
        mf = ai.apply(ClassRef(cls), [], {'tracks': lst}, None)
        holder['same'] = mf.attrs.get('tracks') is lst
        lst.items.append(_mk_file(ctx, ai, [[('n', 7, 9)]]).attrs['tracks'].items[0])
        return _observe(ai, ctx, mf, '__iter__')
    outs = ai.explore(thunk2)
    ok = len(outs) == 1 and outs[0].kind == 'return' and any(isinstance(x, tuple) and x[0] == 'note_on' for x in (outs[0].value or []))
    ctx.require(ok, 'R16.6', 'MidiFile(tracks=[]); tracks.append(track); iterate', ctx.where(init),
                f'a track added through the (initially empty) list given as tracks= is not in the file: iteration gives {outs[0].value if len(outs) == 1 and outs[0].kind == "return" else outs}',
                construct=f'{init.qname}::tracks-argument-adopted')


def r16_4(ctx):
    """No hidden history in module state either: a module-level table that is a one-shot iterator (generator expression, map,
    filter, zip...) is used up by the first observation that looks at it; the next observation of an unchanged file then sees
    an empty table and gives a different answer (save() stops refusing real-time messages, a lookup starts to fail...)."""
    bad = astq.one_shot_globals(ctx.p)
    for m, name, st in bad:
        ctx.fail('R16.4', f'{m.name}.{name}', f'{m.relpath}:{st.lineno} {name}',
                 f'{name} is bound to a one-shot iterator ({unparse(st.value)[:70]}): whatever reads it first uses it up, every later '
                 'use sees it empty (a second observation of an unchanged file, a second port, a second call then behave differently)', construct=f'{m.relpath}::{name}::one-shot-global')
    ctx.ok('R16.4', 'module-level tables are re-iterable', 'mido: module globals')
    ctx.call_sites += sum(len(m.assigns) for m in ctx.p.modules.values())


def r16_5(ctx):
    """What save() writes for a text event is a function of the text and the file's charset alone: the codec helpers are exactly
    .encode/.decode(charset in force) with no memo between calls (bodies shared with C17 R17.4) - a cache keyed by the text alone
    makes the bytes written depend on which file was saved first."""
    from . import c17
    ctx.borrow(c17.r17_4, 'R16.5')


def r16_refused_edit(ctx):
    """An edit that is refused is no edit: add_track() with a name that is not text raises and leaves the track list as it
    was (no half-made track that save() would write); with a proper name the new track is there, named."""
    ai = smf.make_interp(ctx)
    cls = ctx.p.cls(MF, 'MidiFile')
    o, at = ctx.p.lookup_method(cls, 'add_track')
    if at is None:
        raise AnalysisError('MidiFile.add_track not found')
    ctx.fn(at)
    w = ctx.where(at)
    n = 0
    for bad in (b'Lead', 123, 1.5, ('a',)):
        for spec in ([], [[('n', 10, 1)]]):
            n += 1
            holder = {}

            def thunk():
                mf = _mk_file(ctx, ai, spec)
                holder['mf'] = mf
                holder['before'] = list(mf.attrs['tracks'].items)
                return ai.call_function(at, [mf], {'name': bad})
            outs = ai.explore(thunk)
            after = holder['mf'].attrs['tracks'].items
            ok = bool(outs) and all(o_.kind == 'raise' for o_ in outs) and len(after) == len(holder['before']) \
                and all(x is y for x, y in zip(after, holder['before']))
            ctx.require(ok, 'R16.8', f'add_track(name={bad!r}) on {len(spec)} track(s)', w,
                        f'outcomes {outs}; the file has {len(after)} track(s) afterwards, {len(holder["before"])} before: a refused add_track must '
                        'leave the file as it was', construct=f'{at.qname}::refused-leaves-no-track')
    holder = {}

    def thunk_ok():
        mf = _mk_file(ctx, ai, [[('n', 10, 1)]])
        holder['mf'] = mf
        return ai.call_function(at, [mf], {'name': 'Lead'})
    outs = ai.explore(thunk_ok)
    tr = holder['mf'].attrs['tracks'].items
    ok = len(outs) == 1 and outs[0].kind == 'return' and len(tr) == 2 and outs[0].value is tr[1] and isinstance(tr[1], AList) \
        and len(tr[1].items) == 1 and isinstance(tr[1].items[0], AObj) and tr[1].items[0].attrs.get('type') == 'track_name' \
        and tr[1].items[0].attrs.get('name') == 'Lead'
    ctx.require(ok, 'R16.8', "add_track(name='Lead')", w, f'outcomes {outs}; tracks afterwards {tr!r:.300}', construct=f'{at.qname}::named-track')
    ctx.floor('R16.8', n, 8)
    for q in ai.inlined:
        ctx.functions.add(q)


def r16_merge(ctx):
    """Iteration, length and play see the contents through merge_tracks: every message of every track at its absolute tick,
    also the ones behind an end_of_track in the middle of an edited track - the same messages save() writes (shared with C12
    R12.1)."""
    from . import c12
    ctx.borrow(c12.r12_scenarios, 'R16.7')


def r16_attribute_edit(ctx):
    """Changing a message attribute stores the value that was given (converted once, checked, stored - a one-shot iterable
    assigned to sysex data is not used up by the check): what save() and iteration then see is what a fresh file built with
    that value holds (shared with C03 R03.3)."""
    from . import c03
    ctx.borrow(c03.r03_3_setattr, 'R16.9')


_HANDLES = {
    'a name for tracks[0]': ('t = mf.tracks[0]\n{edit}', 0, 2),
    'the track add_track() returned': ('t = mf.add_track()\nt.append(m0)\n{edit}', 1, 1),
    'the loop variable of "for t in mf.tracks"': ('for t in mf.tracks:\n    {edit}', 0, 2),
}


def r16_inplace(ctx):
    """Editing a track's messages with the list operators that edit in place - "track += messages", "track *= n" - edits the
    track that is in the file, through whatever name the caller holds it by (the track add_track() returned, a loop variable):
    the operator acts on the object and hands the same object back.  A MidiTrack whose operator builds a new track instead
    re-binds the caller's name and leaves the file as it was."""
    ai = smf.make_interp(ctx)
    cls = ctx.p.cls(MF, 'MidiFile')
    tcls = ctx.p.cls('mido.midifiles.tracks', 'MidiTrack')
    w = f'{tcls.module.relpath}:{tcls.node.lineno} MidiTrack'
    n = 0
    for op, edit, grow in (('+=', 't += [m]', lambda k: k + 1), ('*=', 't *= 2', lambda k: 2 * k)):
        for hname, (code, idx, before) in _HANDLES.items():
            n += 1
            holder = {}

            def thunk():
                mf = _mk_file(ctx, ai, [[('n', 10, 1), ('n', 5, 2)]])
                m = wire.make_message(ctx, 'note_on', {'channel': 0, 'note': 3, 'velocity': 64}, 20)
                m0 = wire.make_message(ctx, 'note_on', {'channel': 0, 'note': 4, 'velocity': 64}, 30)
                env = {'mf': mf, 'm': m, 'm0': m0}
                holder['mf'] = mf
                ai.ex_block(ast.parse(code.format(edit=edit)).body, env, cls.module)
                return env.get('t')
            outs = ai.explore(thunk)
            inst = f'{edit} through {hname}'
            cons = f'{tcls.qname}::in-place({op})'
            if len(outs) != 1 or outs[0].kind != 'return':
                ctx.fail('R16.10', inst, w, f'the edit does not complete on one path: {outs}', construct=cons)
                continue
            tr = holder['mf'].attrs['tracks'].items[idx]
            got = len(tr.items) if isinstance(tr, AList) and not tr.has_var() else None
            ctx.require(outs[0].value is tr and got == grow(before), 'R16.10', inst, w,
                        f'after "{edit}" the track in the file has {got} messages, {grow(before)} expected'
                        f'{"" if outs[0].value is tr else "; the name is re-bound to a new track and the one in the file is left as it was"}: '
                        f'MidiTrack {op} does not edit the track in place', construct=cons)
    ctx.floor('R16.10', n, 6)
    for q in ai.inlined:
        ctx.functions.add(q)


def r16_saved_values(ctx):
    """save() after an edit writes the edited values: comparing with a freshly built file shows that nothing stale is written,
    not that what is written is the value.  Here a tempo, a sequence number and a channel prefix are assigned to messages of a
    file that was already saved once, and the bytes of the second save are looked at: FF 51 03 07 A1 20 for tempo 500000."""
    ai = smf.make_interp(ctx)
    cls = ctx.p.cls(MF, 'MidiFile')
    o, save = ctx.p.lookup_method(cls, 'save')
    if save is None:
        raise AnalysisError('MidiFile.save not found')
    ctx.fn(save)
    w = ctx.where(save)
    from ..fold import ClassRef
    n = 0
    for mtype, attr, first, value, payload in (('set_tempo', 'tempo', 400000, 500000, [0xff, 0x51, 3, 0x07, 0xa1, 0x20]),
                                               ('set_tempo', 'tempo', 500000, 0x123456, [0xff, 0x51, 3, 0x12, 0x34, 0x56]),
                                               ('sequence_number', 'number', 1, 0x1234, [0xff, 0x00, 2, 0x12, 0x34]),
                                               ('channel_prefix', 'channel', 0, 9, [0xff, 0x20, 1, 9]),
                                               ('smpte_offset', 'sub_frames', 0, 40, [0xff, 0x54, 5, 0, 0, 0, 0, 40]),
                                               ('smpte_offset', 'frames', 0, 23, [0xff, 0x54, 5, 0, 0, 0, 23, 0]),
                                               ('key_signature', 'key', 'C', 'Bb', [0xff, 0x59, 2, 0xfe, 0])):
        n += 1
        holder = {}

        def thunk():
            m = ai.apply(ClassRef(ctx.p.cls(wire.META_MOD, 'MetaMessage')), [mtype], {attr: first, 'time': 0}, None)
            tr = AList([m], 'MidiTrack')
            tr.cls = ctx.p.cls('mido.midifiles.tracks', 'MidiTrack')
            mf = ai.apply(ClassRef(cls), [], {'type': 1, 'ticks_per_beat': 480, 'tracks': AList([tr], 'list')}, None)
            ai.call_function(save, [mf], {'file': wire.AFile(name='first')})
            ai.ex_block(ast.parse(f'm.{attr} = v').body, {'m': m, 'v': value}, cls.module)
            out = wire.AFile(name='second')
            holder['out'] = out
            ai.call_function(save, [mf], {'file': out})
            return out
        outs = ai.explore(thunk)
        flat = []
        for x in (holder['out'].written if 'out' in holder else []):
            flat.append(x.value if isinstance(x, wire.VLQ) and isinstance(x.value, int) else x)
        found = any(all(isinstance(flat[i + k], int) and flat[i + k] == payload[k] for k in range(len(payload))) for i in range(len(flat) - len(payload) + 1))
        ok = len(outs) == 1 and outs[0].kind == 'return' and found
        ctx.require(ok, 'R16.11', f'save; msg.{attr} = {value}; save', w,
                    f'the second save writes {[x for x in flat if not isinstance(x, wire.Field)]}; it must contain {" ".join(f"{b_:02X}" for b_ in payload)}',
                    construct=f'{save.qname}::saved-value({mtype})')
    ctx.floor('R16.11', n, 7)
    for q in ai.inlined:
        ctx.functions.add(q)


def r16_play_schedule(ctx):
    """play behaves exactly as for a freshly built file with the same contents: it follows the times of the current contents -
    the deltas of meta messages it does not hand out included (an edit that puts a delta on a marker moves the notes behind it
    in iteration, length and play alike).  The schedule of play() against the times of iteration is decided in C13 (R13.4)."""
    from . import c13
    ctx.borrow(c13.r13_play, 'R16.12')


def r16_save_leaves_contents(ctx):
    """Results never depend on whether the file was saved earlier: a save that goes through leaves every message as it was, and
    so does a save that is refused - a float delta is refused (or written), never rounded into the message that is in the file."""
    ai = smf.make_interp(ctx)
    cls = ctx.p.cls(MF, 'MidiFile')
    o, save = ctx.p.lookup_method(cls, 'save')
    ctx.fn(save)
    w = ctx.where(save)
    n = 0
    for tval, tlabel in ((19.2, 'a float delta 19.2'), (3.0, 'a float delta 3.0'), (7, 'an integer delta')):
        n += 1
        holder = {}

        def thunk():
            mf = _mk_file(ctx, ai, [[('n', 10, 1), ('n', 5, 2)]])
            m = mf.attrs['tracks'].items[0].items[1]
            m.attrs['time'] = tval
            m.stores.clear()
            holder['m'] = m
            try:
                ai.call_function(save, [mf], {'file': wire.AFile(name='out')})
                return 'saved'
            except Exception as e:      # noqa: BLE001
                from ..absint import AbsRaise
                if isinstance(e, AbsRaise):
                    return 'refused: ' + e.exc
                raise
        outs = ai.explore(thunk)
        m = holder.get('m')
        ok = len(outs) == 1 and outs[0].kind == 'return' and m is not None and m.attrs.get('time') == tval and type(m.attrs.get('time')) is type(tval) and not m.stores
        ctx.require(ok, 'R16.13', f'save() of a file holding {tlabel}', w,
                    f'the save ends {outs[0].value if len(outs) == 1 and outs[0].kind == "return" else outs!r}; afterwards the message has time '
                    f'{m.attrs.get("time") if m is not None else "?"!r} (it was {tval!r}): saving edits the contents', construct=f'{save.qname}::save-edits-contents')
    ctx.floor('R16.13', n, 3)
    for q in ai.inlined:
        ctx.functions.add(q)


def r16_save_by_name(ctx):
    """save(filename) after an edit leaves exactly the bytes of the current contents in the file, whatever an earlier save left
    there: the file of that name is opened for writing from scratch.  Decided on the calls: the stream that is written to comes
    from open(<that name>, 'wb') - or from a descriptor that os.open() made with O_TRUNC; a descriptor opened without it keeps
    the tail of a longer earlier version behind the new contents."""
    import os as _os
    ai = smf.make_interp(ctx)
    cls = ctx.p.cls(MF, 'MidiFile')
    o, save = ctx.p.lookup_method(cls, 'save')
    ctx.fn(save)
    w = ctx.where(save)
    seen = {'opens': [], 'fds': []}

    def s_os_open(interp, args, kwargs, node):
        fl = args[1] if len(args) > 1 else kwargs.get('flags')
        seen['fds'].append((args[0] if args else None, fl))
        return ('fd', len(seen['fds']) - 1)
    ai.summaries['os.open'] = s_os_open

    def s_open(interp, args, kwargs, node):
        f_ = wire.AFile(name='out.mid')
        seen['opens'].append((args[0] if args else kwargs.get('file'), args[1] if len(args) > 1 else kwargs.get('mode', 'r'), f_))
        return f_
    saved_open = ai.builtin_summaries.get('open')
    ai.builtin_summaries['open'] = s_open
    try:
        def thunk():
            seen['opens'].clear()
            seen['fds'].clear()
            mf = _mk_file(ctx, ai, [[('n', 3, 1), ('e', 0, None)]])
            ai.call_function(save, [mf], {'filename': 'song.mid'})
            return [(a, m, bool(f_.written)) for a, m, f_ in seen['opens']], list(seen['fds'])
        outs = ai.explore(thunk)
    finally:
        if saved_open is None:
            ai.builtin_summaries.pop('open', None)
        else:
            ai.builtin_summaries['open'] = saved_open
    ok = len(outs) == 1 and outs[0].kind == 'return'
    why = f'{outs}'
    if ok:
        opens, fds = outs[0].value
        wrote = [(a, m) for a, m, used in opens if used]
        ok = len(wrote) == 1
        why = f'the contents are written to {len(wrote)} opened files: {opens}'
        if ok:
            a, m = wrote[0]
            if a == 'song.mid':
                ok = isinstance(m, str) and 'w' in m and 'b' in m and '+' not in m.replace('w+', '')
                why = f'the file is opened with mode {m!r}; "wb" starts from an empty file'
            elif isinstance(a, tuple) and len(a) == 2 and a[0] == 'fd':
                path, fl = fds[a[1]]
                need = _os.O_TRUNC | _os.O_CREAT
                ok = path == 'song.mid' and isinstance(fl, int) and fl & need == need and fl & (_os.O_WRONLY | _os.O_RDWR)
                why = (f'the file is written through a descriptor from os.open({path!r}, {fl!r}): without O_TRUNC (and O_CREAT) a longer '
                       f'earlier version keeps its tail behind the new contents')
            else:
                ok = False
                why = f'the stream written to comes from open({a!r}, {m!r}), not from the name given to save()'
    ctx.require(ok, 'R16.14', "save(filename='song.mid')", w, why, construct=f'{save.qname}::opens-for-writing-from-scratch')
    for q in ai.inlined:
        ctx.functions.add(q)


RULES = [('R16.14', r16_save_by_name), ('R16.13', r16_save_leaves_contents), ('R16.12', r16_play_schedule), ('R16.11', r16_saved_values), ('R16.10', r16_inplace), ('R16.9', r16_attribute_edit), ('R16.8', r16_refused_edit), ('R16.7', r16_merge), ('R16.6', r16_6), ('R16.1', r16_1), ('R16.2', r16_2), ('R16.3', r16_3), ('R16.4', r16_4), ('R16.5', r16_5)]
