"""C04 - the parser is total and sound on arbitrary byte streams."""
from __future__ import annotations

import ast

from .. import astq, reference, tokmodel
from ..absint import AList, AObj, SeqVar
from ..bits import AV
from ..model import AnalysisError, unparse
from . import parsershape

LEVEL = 'other'
EXPLANATION = (
    'One-step (inductive) abstract interpretation of Tokenizer.feed_byte: for each of 30 abstract pre-states (idle; '
    'collecting each multi-byte message family with k bytes so far, channel 0 and 15; inside a sysex with a symbolic '
    'payload) and each of the 256 byte values the method is interpreted once in the abstract domain and the outcome, '
    'the emitted tokens and the post-state are compared with the transition relation of a MIDI 1.0 tokenizer '
    '(midolint.reference): never raises; emits exactly the completed message / the real-time byte; tokens consist of '
    'the status byte and the bytes received, in order; an emitted list is never aliased by a non-idle state or '
    'mutated later; the post-state satisfies the invariant again.  Parser._decode/feed are matched structurally '
    '(every token goes through Message.from_bytes, in order), and every token shape is one that C02 proves is '
    'accepted.  No byte stream is executed; the argument is induction over the one-step summaries.')
TRUSTED = ['midolint abstract interpreter', 'reference transition relation of a MIDI tokenizer (midolint/rules/c04.py: expected())',
           'C02 (every complete token decodes)']
ASSUMPTIONS = ['bytes fed are Integral 0..255', 'single-threaded use of one parser']

RT_DEFINED = {0xf8, 0xfa, 0xfb, 0xfc, 0xfe, 0xff}
RT_UNDEFINED = {0xf9, 0xfd}


def classify(b):
    L = tokmodel.ref_lengths()
    if b < 0x80:
        return 'data'
    if b == 0xf7:
        return 'sysex_end'
    if b in RT_DEFINED:
        return 'realtime'
    if b in RT_UNDEFINED:
        return 'undefined_realtime'
    if b not in L:
        return 'undefined_common'
    if L[b] == 1:
        return 'one_byte'
    return 'starter'


def _items_equal(a, b):
    if len(a) != len(b):
        return False
    for x, y in zip(a, b):
        if isinstance(x, AV) and isinstance(y, AV):
            if not x.same(y):
                return False
        elif isinstance(x, SeqVar) or isinstance(y, SeqVar):
            if x is not y:
                return False
        elif isinstance(x, AV) or isinstance(y, AV):
            xa = x if isinstance(x, AV) else AV(x) if isinstance(x, int) else None
            ya = y if isinstance(y, AV) else AV(y) if isinstance(y, int) else None
            if xa is None or ya is None or not xa.same(ya):
                return False
        elif x != y:
            return False
    return True


def post_kind(t):
    """Describe the post-state relative to the pre-state."""
    obj = t.obj
    st = obj.attrs.get('_status')
    if isinstance(st, int) and st == 0 or st is None or st is False:
        return 'idle'
    b = obj.attrs.get('_bytes')
    items = b.items if isinstance(b, AList) else None
    return ('collect', st, items, obj.attrs.get('_len'))


def judge(ctx, fn, t, rule_prefix='R04'):
    """Returns list of (rule, instance, ok, why, construct)."""
    L = tokmodel.ref_lengths()
    res = []
    pre, b = t.pre, t.byte
    cl = classify(b)
    inst = f'{pre!r} --{b:#04x}-->'
    cons = f'{fn.qname}::{pre.kind}::{cl}'

    def add(rule, ok, why, sub):
        res.append((rule, f'{inst} {sub}', ok, why, f'{cons}::{sub}'))

    if isinstance(t.outcome, list):
        add('R04.1', False, f'cannot decide the transition (undecided condition): {t.outcome}', 'decidable')
        return res
    oc = t.outcome
    if oc.kind != 'return':
        add('R04.1', False, f'feeding byte {b:#04x} in state {pre!r} raises {oc.exc}'
            f'{" (implicit, at " + unparse(oc.node)[:50] + ")" if oc.implicit else ""}', 'total')
        return res
    add('R04.1', True, '', 'total')
    emitted = t.emitted
    if emitted is None:
        add('R04.3', False, 'token queue is no longer a list-like container', 'queue')
        return res
    if not emitted or not isinstance(emitted[0], tokmodel.Pending):
        add('R04.3', False, 'a token that was already pending is dropped, replaced or overtaken by this call '
            f'(queue afterwards: {emitted!r})', 'pending-preserved')
        return res
    emitted = emitted[1:]
    pk = post_kind(t)
    new_bytes = t.pre_bytes + [b]
    # expected emission and post-state
    if cl == 'data':
        if pre.kind == 'idle':
            exp_emit, posts = [], ['idle']
        elif pre.kind == 'sysex':
            exp_emit, posts = [], [('collect', 0xf0, new_bytes)]
        else:
            if pre.k + 1 == L[pre.status]:
                exp_emit, posts = [new_bytes], ['idle']
            else:
                exp_emit, posts = [], [('collect', pre.status, new_bytes)]
    elif cl == 'sysex_end':
        if pre.kind == 'sysex':
            exp_emit, posts = [new_bytes], ['idle']
        else:
            exp_emit, posts = [], ['idle', 'same']
    elif cl == 'realtime':
        exp_emit = [[b]]
        posts = ['same'] if pre.kind == 'sysex' else ['idle', 'same']
    elif cl == 'undefined_realtime':
        exp_emit = []
        posts = ['same'] if pre.kind == 'sysex' else ['idle', 'same']
    elif cl == 'undefined_common':
        exp_emit, posts = [], ['idle', 'same']
    elif cl == 'one_byte':
        # the one-byte message is emitted now; a partial message kept alive would complete later and
        # come out AFTER it although its bytes came first (not an in-order subsequence)
        exp_emit, posts = [[b]], ['idle']
    else:
        exp_emit, posts = [], [('collect', b, [b])]
    # emission
    em_items = []
    ok = True
    for tok in emitted:
        if isinstance(tok, AList):
            em_items.append(tok.items)
        elif isinstance(tok, (list, tuple)):
            em_items.append(list(tok))
        else:
            ok = False
    ok = ok and len(em_items) == len(exp_emit) and all(_items_equal(a, e) for a, e in zip(em_items, exp_emit))
    rule = {'realtime': 'R04.4', 'undefined_realtime': 'R04.4'}.get(cl, 'R04.3')
    add(rule, ok, f'emits {emitted!r}, a MIDI tokenizer emits {exp_emit!r} here', 'emission')
    # post-state
    same = ('collect', pre.status, t.pre_bytes) if pre.kind != 'idle' else 'idle'
    allowed = [same if p == 'same' else p for p in posts]
    pok = False
    for a in allowed:
        if a == 'idle' and pk == 'idle':
            pok = True
        elif a != 'idle' and pk != 'idle' and pk[1] == a[1] and pk[2] is not None and _items_equal(pk[2], a[2]):
            want_len = L.get(a[1])
            if pk[3] == want_len:
                pok = True
    add('R04.3' if cl in ('data', 'sysex_end') else 'R06.1' if cl in ('starter', 'one_byte') else 'R06.2' if pre.kind == 'sysex' else 'R04.3',
        pok, f'post-state is {pk!r}; allowed: {allowed!r} with _len from the spec table', 'post-state')
    # aliasing: an emitted list must not stay the live buffer of a non-idle state
    live = t.obj.attrs.get('_bytes')
    for tok in emitted:
        if tok is live and pk != 'idle':
            add('R04.3', False, 'the emitted token is still the live byte buffer of a non-idle state (it will be mutated/emitted again)', 'alias')
    if t.stale_list is not None:
        stale_ok = len(t.stale_list.items) == 1 and isinstance(t.stale_list.items[0], tokmodel.Stale) \
            and not any(tok is t.stale_list for tok in emitted)
        add('R04.3', stale_ok, 'a previously emitted (stale) buffer is mutated or emitted again from the idle state', 'stale-buffer')
    return res


def ref_step(state, b):
    """The reference transition relation: state = None (idle) | (status, [bytes]); -> list of (emitted tokens, new state)."""
    L = tokmodel.ref_lengths()
    cl = classify(b if isinstance(b, int) else 0)
    if cl == 'data':
        if state is None:
            return [([], None)]
        st, bs = state
        nb = bs + [b]
        if st != 0xf0 and len(nb) == L[st]:
            return [([nb], None)]
        return [([], (st, nb))]
    if cl == 'sysex_end':
        if state is not None and state[0] == 0xf0:
            return [([state[1] + [b]], None)]
        return [([], None)] + ([([], state)] if state is not None else [])
    if cl in ('realtime', 'undefined_realtime'):
        em = [[b]] if cl == 'realtime' else []
        if state is not None and state[0] == 0xf0:
            return [(em, state)]
        return [(em, None)] + ([(em, state)] if state is not None else [])
    if cl == 'undefined_common':
        return [([], None)] + ([([], state)] if state is not None else [])
    if cl == 'one_byte':
        return [([[b]], None)]
    return [([], (b, [b]))]


def ref_outputs(stream):
    """All token sequences the reference relation allows for the stream (symbolic items are data bytes)."""
    runs = [([], None)]
    for b in stream:
        nxt = []
        for toks, st in runs:
            for em, st2 in ref_step(st, b):
                nxt.append((toks + em, st2))
        runs = nxt
    return [toks for toks, st in runs]


def run_observed(ctx, remap):
    """The transition obligations by observation (see tokmodel): used when the tokenizer does not keep its state in the fields
    the exact rules write."""
    fn, obs = tokmodel.observed_transitions(ctx)
    n = 0
    classes = set()
    for pre, b, outs, toks in obs:
        n += 1
        cl = classify(b)
        classes.add((pre.kind, cl))
        inst = f'{pre!r} --{b:#04x}-->'
        cons = f'{fn.qname}::{pre.kind}::{cl}'
        if len(outs) != 1:
            ctx.fail(remap('R04.1'), f'{inst} decidable', ctx.where(fn), f'cannot decide the transition (undecided condition): {outs}', construct=f'{cons}::decidable')
            continue
        if outs[0].kind != 'return':
            ctx.fail(remap('R04.1'), f'{inst} total', ctx.where(fn), f'feeding byte {b:#04x} in state {pre!r} (then two data bytes and F7) raises {outs[0].exc}',
                     construct=f'{cons}::total')
            continue
        ctx.ok(remap('R04.1'), f'{inst} total', ctx.where(fn))
        allowed = ref_outputs(tokmodel.pre_prefix(pre) + [b] + tokmodel.suffix())
        ok = any(len(toks) == len(a) and all(isinstance(t, list) and _items_equal(t, e) for t, e in zip(toks, a)) for a in allowed)
        rule = 'R04.4' if cl in ('realtime', 'undefined_realtime') else 'R06.1' if cl in ('starter', 'one_byte') else 'R04.3'
        ctx.require(ok, remap(rule), f'{inst} observed', ctx.where(fn),
                    f'after {pre!r}, the byte {b:#04x}, two data bytes and F7 the tokenizer hands out {toks!r}; a MIDI tokenizer hands out '
                    f'{" or ".join(repr(a) for a in allowed)}', construct=f'{cons}::observed')
    ctx.floor('transitions', n, 30 * 256)
    ctx.floor('state-x-byte-classes', len(classes), 21)
    ctx.extra['tokenizer_transitions'] = 'by observation (state not kept in _status/_bytes/_len)'
    ctx.notes.append('tokenizer transitions decided by observation: prefix, byte and a distinguishing suffix are fed to a fresh tokenizer; '
                     'the exact one-step rules need the state in the fields _status, _bytes, _len')


def run_transitions(ctx, remap):
    if not tokmodel.representation_known(ctx):
        run_observed(ctx, remap)
        return
    fn, trans = tokmodel.transitions(ctx)
    classes = set()
    n = 0
    for t in trans:
        n += 1
        classes.add((t.pre.kind, classify(t.byte)))
        for rule, inst, ok, why, cons in judge(ctx, fn, t):
            rule = remap(rule)
            ctx.require(ok, rule, inst, ctx.where(fn), why, construct=cons)
    ctx.floor('transitions', n, 30 * 256)
    ctx.floor('state-x-byte-classes', len(classes), 21)


def r04_transitions(ctx):
    run_transitions(ctx, lambda r: 'R04.3' if r.startswith('R06') else r)
    ctx.extra['byte_classes'] = sorted({classify(b) for b in range(256)})
    ctx.extra['pre_states'] = [repr(p) for p in tokmodel.pre_states()]


def r04_init(ctx):
    fn, outs, obj = tokmodel.init_state(ctx)
    w = ctx.where(fn)
    ok = len(outs) == 1 and outs[0].kind == 'return'
    ctx.require(ok, 'R04.1', 'Tokenizer().outcome', w, f'constructor outcomes {outs}', construct=f'{fn.qname}::outcome')
    if ok and tokmodel.representation_known(ctx):
        st = obj.attrs.get('_status')
        msgs = obj.attrs.get('_messages')
        ctx.require(st == 0 or st is None or st is False, 'R04.1', 'Tokenizer().idle', w, f'initial _status is {st!r}',
                    construct=f'{fn.qname}::idle')
        ctx.require(isinstance(msgs, AList) and msgs.kind == 'deque' and not msgs.items, 'R04.1', 'Tokenizer().queue', w,
                    f'initial token queue is {msgs!r}', construct=f'{fn.qname}::queue')
    elif ok:
        # by observation: a fresh tokenizer fed two data bytes and F7 hands out nothing; its queues are empty deques
        qs = [v for v in obj.attrs.values() if isinstance(v, AList) and v.kind == 'deque']
        ctx.require(len(qs) >= 1 and all(not q.items for q in qs), 'R04.1', 'Tokenizer().queue', w, f'initial token queue(s): {qs!r}',
                    construct=f'{fn.qname}::queue')


def r04_guard(ctx, rule='R04.1'):
    """feed_byte rejects non-bytes instead of corrupting the state: a refused call stores nothing - on a fresh tokenizer and
    on one that is in the middle of a message or of a sysex."""
    from ..absint import skey
    from ..fold import ClassRef
    cls = ctx.p.cls(tokmodel.TOK_MOD, 'Tokenizer')
    o, fn = ctx.p.lookup_method(cls, 'feed_byte')
    ai = tokmodel.interp(ctx)
    n = 0
    for pre_name, pre in (('fresh', []), ('in a message', [0x90, 0x3c]), ('in a sysex', [0xf0, 1, 2]), ('after a message', [0x90, 0x3c, 0x40])):
        for bad in (-1, 256, 1000):
            holder = {}
            n += 1

            def thunk():
                obj = ai.apply(ClassRef(cls), [], {}, None)          # a tokenizer (whatever its fields are)
                for b in pre:
                    ai.call_function(fn, [obj, b], {})
                obj.stores.clear()
                holder['obj'] = obj
                holder['before'] = skey(obj.attrs)
                return ai.call_function(fn, [obj, bad], {})
            outs = ai.explore(thunk)
            ok = bool(outs) and all(o_.kind == 'raise' and o_.exc in ('ValueError', 'TypeError') for o_ in outs) and not holder['obj'].stores \
                and skey(holder['obj'].attrs) == holder['before']
            ctx.require(ok, rule, f'feed_byte({bad}) {pre_name}', ctx.where(fn),
                        f'out-of-range byte {pre_name}: outcomes {outs}, stores {holder["obj"].stores!r:.200} (a refused byte must leave the state as it was)',
                        construct=f'{fn.qname}::reject-out-of-range')
    ctx.floor(rule + '-refused', n, 12)


def r04_parser(ctx):
    parsershape.check_parser(ctx, 'R04.5')
    parsershape.tokenizer_semantics(ctx, 'R04.5')


def r04_decode(ctx):
    """A token becomes a message that encodes back to exactly the token: nothing invented, nothing dropped (decoder layouts,
    shared with C01 R01.3; the accepted token shapes are C02's)."""
    from . import c01
    ctx.borrow(c01.r01_3, 'R04.6')


def r04_valid(ctx):
    """Every message it yields is a valid message: valid by the library's own checks, which therefore have to accept exactly the
    values the decoder can produce - channel 0..15, data 0..127, 14-bit ranges (check domains, shared with C01 R01.1).  The
    parser builds messages without running the checks, so a check that is too narrow makes it hand out messages the rest of the
    library (copy, str round trip, the constructor) refuses."""
    from . import c01
    ctx.borrow(c01.r01_1, 'R04.7')


def r04_silent(ctx):
    """Stray and undefined bytes are skipped *silently*, and feeding never raises for bytes in range: the byte handlers call
    nothing but their own helpers (no warnings, logging, callbacks or clocks - with warnings turned into errors a
    `warnings.warn` is a raise in the middle of a chunk).  The purity audit of C05 R05.2, run under this property's name."""
    parsershape.check_purity(ctx, 'R04.8')


RULES = [('R04.8', r04_silent), ('R04.7', r04_valid), ('R04.6', r04_decode), ('R04-transitions', r04_transitions), ('R04-init', r04_init), ('R04-guard', r04_guard), ('R04.5', r04_parser)]
