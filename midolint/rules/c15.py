"""C15 - copy, freeze and thaw have value semantics."""
from __future__ import annotations

import ast

from .. import astq, codec, reference, smf, wire
from ..absint import AbsRaise, ADict, AList, AObj, Opaque, SeqVar
from ..fold import ClassRef, UNKNOWN
from ..model import AnalysisError, unparse
from ..paths import enumerate_paths

LEVEL = 'other'
EXPLANATION = (
    'freeze_message, thaw_message and the copy() methods are abstractly interpreted on abstract objects of all six message '
    'classes (Message, MetaMessage, UnknownMetaMessage and their frozen counterparts) with symbolic attribute values, and on '
    'None: the result class must be the counterpart class (the isinstance chains fold to two mutually inverse maps, no branch '
    'is dead), the attribute dict must be equal to but distinct from the source dict, freezing a frozen message returns the '
    'same object, thaw(freeze(m)) has m\'s class and attributes, a non-frozen argument of thaw yields a copy, None maps to '
    'None; copy() returns a new object of the same class with its own dict, with overrides the result equals a fresh '
    'construction and the override goes through the checks; attribute assignment and deletion on frozen objects resolve '
    '(MRO) to methods that raise on every path and leave the dict untouched; __eq__ and __hash__ are functions of vars(self) '
    'only and every value a constructor or decoder stores is hashable (tuples, no mutable default).')
TRUSTED = ['midolint abstract interpreter and program model (C3 MRO)']
ASSUMPTIONS = ['attribute values stored in messages are ints/floats/str/tuples as established by C03/C09']

FZ = 'mido.frozen'
MSG = codec.MSG_MOD
META = wire.META_MOD


def samples(ai, ctx, unusual=False):
    """label -> (factory, class name); with unusual=True also messages in states the API allows and the constructors would not
    make again: built with skip_checks=True, or holding a list where a reader would have put a tuple."""
    def msg():
        return wire.make_message(ctx, 'note_on', {'channel': smf.sym('ch', 15), 'note': smf.sym('n', 127), 'velocity': smf.sym('v', 127)}, smf.sym('t', 1000))

    def sysex():
        return wire.make_message(ctx, 'sysex', {'data': AList([SeqVar('D', 127)], 'tuple')}, 0)

    def meta():
        return wire.make_meta(ai, ctx, 'set_tempo', {'tempo': smf.sym('tempo', 0xffffff)}, smf.sym('t', 1000))

    def text():
        return wire.make_meta(ai, ctx, 'track_name', {'name': wire.StrSym('N')}, 0)

    def unknown():
        cls = ctx.p.cls(META, 'UnknownMetaMessage')
        return AObj(cls, {'type': 'unknown_meta', 'type_byte': 0x60, 'data': AList([SeqVar('U', 255)], 'tuple'), 'time': smf.sym('t', 1000)})
    out = {'Message': (msg, 'Message'), 'Message(sysex)': (sysex, 'Message'), 'MetaMessage': (meta, 'MetaMessage'),
           'MetaMessage(text)': (text, 'MetaMessage'), 'UnknownMetaMessage': (unknown, 'UnknownMetaMessage')}
    if unusual:
        def unchecked():
            return wire.make_message(ctx, 'note_on', {'channel': 0, 'note': 300, 'velocity': 64}, 0)

        def seqspec_default():
            return wire.make_meta(ai, ctx, 'sequencer_specific', {'data': AList([], 'list')}, 0)

        def seqspec_list():
            return wire.make_meta(ai, ctx, 'sequencer_specific', {'data': AList([0x43, 1], 'list')}, 5)

        def unknown_list():
            cls = ctx.p.cls(META, 'UnknownMetaMessage')
            return AObj(cls, {'type': 'unknown_meta', 'type_byte': 0x60, 'data': AList([1, 2, 3], 'list'), 'time': 0})
        out.update({'Message(skip_checks=True, note=300)': (unchecked, 'Message'),
                    'MetaMessage(sequencer_specific, default data [])': (seqspec_default, 'MetaMessage'),
                    'MetaMessage(sequencer_specific, data given as a list)': (seqspec_list, 'MetaMessage'),
                    'UnknownMetaMessage(data assigned a list)': (unknown_list, 'UnknownMetaMessage')})
    return out


FROZEN_OF = {'Message': 'FrozenMessage', 'MetaMessage': 'FrozenMetaMessage', 'UnknownMetaMessage': 'FrozenUnknownMetaMessage'}


def _seq_kind(v):
    if isinstance(v, AList):
        return v.kind if v.kind in ('list', 'tuple', 'bytearray', 'bytes') else None
    if isinstance(v, (list, tuple, bytearray, bytes)):
        return type(v).__name__
    return None


def attrs_equal(a, b):
    """vars(x) == vars(y) as Python compares them: a list never equals a tuple with the same items."""
    if set(a) != set(b):
        return False
    for k in a:
        ka, kb = _seq_kind(a[k]), _seq_kind(b[k])
        if ka is not None and kb is not None and ka != kb:
            return False
        if not (wire.value_equal(a[k], b[k]) or a[k] is b[k]):
            return False
    return True


def r15_freeze_thaw(ctx):
    ai = smf.make_interp(ctx)
    fr = ctx.fn(ctx.p.func(FZ, 'freeze_message'))
    th = ctx.fn(ctx.p.func(FZ, 'thaw_message'))
    wf, wt = ctx.where(fr), ctx.where(th)
    n = 0
    for label, (factory, clsname) in samples(ai, ctx, unusual=True).items():
        n += 1
        holder = {}

        def thunk():
            m = factory()
            holder['m'] = m
            holder['before'] = dict(m.attrs)
            f = ai.call_function(fr, [m], {})
            f2 = ai.call_function(fr, [f], {})
            t = ai.call_function(th, [f], {})
            t2 = ai.call_function(th, [m], {})
            return f, f2, t, t2
        outs = ai.explore(thunk)
        if len(outs) != 1 or outs[0].kind != 'return':
            ctx.fail('R15.2', f'freeze/thaw({label})', wf, f'freeze/thaw does not complete on one path: {outs}', construct=f'{fr.qname}::{clsname}::outcomes')
            continue
        f, f2, t, t2 = outs[0].value
        m = holder['m']
        ok = isinstance(f, AObj) and f.cls is not None and f.cls.name == FROZEN_OF[clsname]
        ctx.require(ok, 'R15.2', f'freeze({label}).class', wf, f'freeze gives {f.cls.name if isinstance(f, AObj) and f.cls else f!r}, expected {FROZEN_OF[clsname]}',
                    construct=f'{fr.qname}::{clsname}::class')
        if isinstance(f, AObj):
            ctx.require(f is not m and f.attrs is not m.attrs and attrs_equal(f.attrs, holder['before']) and attrs_equal(m.attrs, holder['before']) and not m.stores,
                        'R15.1', f'freeze({label}).value', wf, 'the frozen message is not an equal, independent copy (or the original was changed)',
                        construct=f'{fr.qname}::{clsname}::value')
        ctx.require(f2 is f, 'R15.4', f'freeze(freeze({label}))', wf, 'freezing a frozen message does not return it unchanged',
                    construct=f'{fr.qname}::{clsname}::idempotent')
        ok = isinstance(t, AObj) and t.cls is not None and t.cls.name == clsname and t is not f and t.attrs is not f.attrs and attrs_equal(t.attrs, holder['before'])
        ctx.require(ok, 'R15.2', f'thaw(freeze({label}))', wt, f'thaw(freeze(m)) is {t!r}, expected a {clsname} equal to m', construct=f'{th.qname}::{clsname}::inverse')
        ok = isinstance(t2, AObj) and t2.cls == m.cls and t2 is not m and t2.attrs is not m.attrs and attrs_equal(t2.attrs, holder['before'])
        ctx.require(ok, 'R15.1', f'thaw({label}) of a non-frozen', wt, f'thaw of a non-frozen message is {t2!r}, expected an independent copy',
                    construct=f'{th.qname}::{clsname}::copy')
    ctx.floor('R15.2', n, 9)
    for fn, w in ((fr, wf), (th, wt)):
        outs = ai.explore(lambda: ai.call_function(fn, [None], {}))
        ok = len(outs) == 1 and outs[0].kind == 'return' and outs[0].value is None
        ctx.require(ok, 'R15.3', f'{fn.name}(None)', w, f'{fn.name}(None) gives {outs} - None must map to None', construct=f'{fn.qname}::None')
        outs = ai.explore(lambda: ai.call_function(fn, [42], {}))
        ok = bool(outs) and all(o.kind == 'raise' and o.exc in ('ValueError', 'TypeError', 'AttributeError') for o in outs)
        ctx.require(ok, 'R15.3', f'{fn.name}(42)', w, f'{fn.name}(42): {outs}', construct=f'{fn.qname}::non-message')
    for q in ai.inlined:
        ctx.functions.add(q)


def r15_frozen(ctx):
    """Frozen means frozen: MRO resolution of the mutators; assignment raises and changes nothing."""
    ai = smf.make_interp(ctx)
    fr = ctx.p.func(FZ, 'freeze_message')
    frozen_base = ctx.p.cls(FZ, 'Frozen')
    n = 0
    for label, (factory, clsname) in samples(ai, ctx).items():
        fc = ctx.p.cls(FZ, FROZEN_OF[clsname])
        w = f'{fc.module.relpath}:{fc.node.lineno} {fc.name}'
        o, sa = ctx.p.lookup_method(fc, '__setattr__')
        o2, da = ctx.p.lookup_method(fc, '__delattr__')
        o3, ha = ctx.p.lookup_method(fc, '__hash__')
        n += 1
        for what, fn in (('__setattr__', sa), ('__delattr__', da)):
            if fn is None:
                ctx.fail('R15.4', f'{fc.name}.{what}', w, f'{what} does not resolve to a method', construct=f'{fc.qname}::{what}')
                continue
            ctx.fn(fn)
            ps = enumerate_paths(fn.node)
            ctx.paths += len(ps)
            ok = bool(ps) and all(p.status == 'raise' for p in ps)
            ctx.require(ok, 'R15.4', f'{fc.name}.{what}', w,
                        f'{what} resolves to {fn.qname.split("::")[1]}, which does not raise on every path: frozen messages can be changed',
                        construct=f'{fc.qname}::{what}::raises')
        ctx.require(ha is not None and o3 is not None and o3.name == 'Frozen', 'R15.4', f'{fc.name}.__hash__', w,
                    f'__hash__ resolves to {ha.qname if ha else None}', construct=f'{fc.qname}::__hash__')
        mro = [k.name for k in ctx.p.mro(fc)]
        ctx.require(mro.index('Frozen') < mro.index(clsname), 'R15.4', f'{fc.name}.mro', w, f'MRO is {mro}: Frozen must precede {clsname}',
                    construct=f'{fc.qname}::mro')
        # assignment on a frozen object
        holder = {}

        def thunk():
            m = factory()
            f = ai.call_function(ctx.p.func(FZ, 'freeze_message'), [m], {})
            holder['f'] = f
            holder['before'] = dict(f.attrs)
            pm_call = ctx.p.lookup_method(f.cls, '__setattr__')[1]
            return ai.call_function(pm_call, [f, 'time', 99], {})
        outs = ai.explore(thunk)
        ok = bool(outs) and all(o_.kind == 'raise' for o_ in outs) and attrs_equal(holder['f'].attrs, holder['before'])
        ctx.require(ok, 'R15.4', f'{fc.name}.assign', w, f'assigning time on a frozen {clsname}: {outs}', construct=f'{fc.qname}::assign')
    ctx.floor('R15.4', n, 5)
    ctx.fn(fr)


def r15_copy(ctx):
    ai = smf.make_interp(ctx)
    n = 0
    for label, (factory, clsname) in samples(ai, ctx).items():
        mod = MSG if clsname == 'Message' else META
        cls = ctx.p.cls(mod, clsname)
        o, cp = ctx.p.lookup_method(cls, 'copy')
        if cp is None:
            raise AnalysisError(f'{clsname}.copy not found')
        ctx.fn(cp)
        w = ctx.where(cp)
        n += 1
        holder = {}

        def thunk():
            m = factory()
            holder['m'] = m
            holder['before'] = dict(m.attrs)
            return ai.call_function(cp, [m], {}), ai.call_function(cp, [m], {'time': 77})
        outs = ai.explore(thunk)
        if len(outs) != 1 or outs[0].kind != 'return':
            ctx.fail('R15.1', f'copy({label})', w, f'{outs}', construct=f'{cp.qname}::{clsname}::outcomes')
            continue
        c0, c1 = outs[0].value
        m = holder['m']
        ok = isinstance(c0, AObj) and c0 is not m and c0.cls == m.cls and c0.attrs is not m.attrs and attrs_equal(c0.attrs, holder['before'])
        ctx.require(ok, 'R15.1', f'copy({label})', w, f'copy() gives {c0!r}', construct=f'{cp.qname}::{clsname}::plain')
        want = dict(holder['before'])
        want['time'] = 77
        ok = isinstance(c1, AObj) and c1 is not m and c1.cls == m.cls and attrs_equal(c1.attrs, want) and attrs_equal(m.attrs, holder['before']) and not m.stores
        ctx.require(ok, 'R15.1', f'copy({label}, time=77)', w, f'copy(time=77) gives {c1!r}; original now {m.attrs!r}', construct=f'{cp.qname}::{clsname}::override')
        # invalid override rejected, original untouched
        outs = ai.explore(lambda: ai.call_function(cp, [factory()], {'time': 'soon'}))
        ok = bool(outs) and all(o_.kind == 'raise' and o_.exc in ('TypeError', 'ValueError') for o_ in outs)
        if clsname == 'UnknownMetaMessage':
            ctx.notes.append('UnknownMetaMessage.copy(time=<str>) is unchecked (finding D7 family)')
        else:
            ctx.require(ok, 'R15.1', f'copy({label}, time=str)', w, f'an invalid override is not rejected: {outs}', construct=f'{cp.qname}::{clsname}::invalid-override')
        # naming the message's own type among the overrides is allowed - whatever string object spells it (one that was read
        # from a file or built at run time is equal to the stored one, not identical with it)
        def thunk_t():
            m = factory()
            own = m.attrs['type']
            built = ''.join([own[:3], own[3:]])          # an equal string that is a different object
            return ai.call_function(cp, [m], {'type': built, 'time': 77}), dict(m.attrs)
        outs = ai.explore(thunk_t)
        ok = len(outs) == 1 and outs[0].kind == 'return' and isinstance(outs[0].value[0], AObj)
        if ok:
            want = dict(outs[0].value[1])
            want['time'] = 77
            ok = attrs_equal(outs[0].value[0].attrs, want)
        ctx.require(ok, 'R15.1', f'copy({label}, type=<own type>, time=77)', w,
                    f'{outs}; the copy must equal a freshly constructed message with these values', construct=f'{cp.qname}::{clsname}::own-type-override')
        # with skip_checks=True the copy is what the constructor makes with skip_checks=True: an out-of-range value passes
        if clsname == 'Message' and label == 'Message':
            outs = ai.explore(lambda: ai.call_function(cp, [factory()], {'skip_checks': True, 'note': 300}))
            ok = len(outs) == 1 and outs[0].kind == 'return' and isinstance(outs[0].value, AObj) and outs[0].value.attrs.get('note') == 300 \
                and outs[0].value.attrs.get('type') == 'note_on'
            ctx.require(ok, 'R15.1', f'copy({label}, skip_checks=True, note=300)', w,
                        f'{outs}; Message("note_on", skip_checks=True, note=300) is made without complaint, the copy with the same overrides must equal it',
                        construct=f'{cp.qname}::{clsname}::skip-checks-forwarded')
        # frozen copies stay frozen class
        outs = ai.explore(lambda: ai.call_function(cp, [ai.call_function(ctx.p.func(FZ, 'freeze_message'), [factory()], {})], {}))
        ok = len(outs) == 1 and outs[0].kind == 'return' and isinstance(outs[0].value, AObj) and outs[0].value.cls.name == FROZEN_OF[clsname]
        ctx.require(ok, 'R15.1', f'copy(frozen {label})', w, f'{outs}', construct=f'{cp.qname}::{clsname}::frozen-class')
    ctx.floor('R15.1', n, 5)
    # copy() with overrides equals a freshly constructed message with those values - also in how a sequence-valued attribute is
    # kept: whatever the constructor does with data given as a list, a tuple or bytes, copy(data=...) does the same
    from ..fold import ClassRef as _CR
    mcls = ctx.p.cls(META, 'MetaMessage')
    ucls = ctx.p.cls(META, 'UnknownMetaMessage')
    scls = ctx.p.cls(MSG, 'Message')
    cases = [('MetaMessage sequencer_specific', mcls, ['sequencer_specific'], {}), ('UnknownMetaMessage', ucls, [0x60], {}), ('Message sysex', scls, ['sysex'], {})]
    for label, cls_, cargs, ckw in cases:
        o, cp = ctx.p.lookup_method(cls_, 'copy')
        for kind in ('list', 'tuple', 'bytes'):
            def thunk_c(kind=kind):
                base = ai.apply(_CR(cls_), list(cargs), dict(ckw, time=3), None)
                copied = ai.call_function(cp, [base], {'data': AList([1, 2], kind)})
                fresh = ai.apply(_CR(cls_), list(cargs), dict(ckw, time=3, data=AList([1, 2], kind)), None)
                return copied, fresh
            outs = ai.explore(thunk_c)
            ok = len(outs) == 1 and outs[0].kind == 'return' and all(isinstance(x, AObj) for x in outs[0].value)
            if ok:
                copied, fresh = outs[0].value
                ok = attrs_equal(copied.attrs, fresh.attrs) and _seq_kind(copied.attrs.get('data')) == _seq_kind(fresh.attrs.get('data'))
            ctx.require(ok, 'R15.1', f'copy({label}, data=<{kind}>) against the constructor', ctx.where(cp),
                        f'copy(data=<{kind} 1, 2>) and the constructor called with the same values give {str(outs)[:300]}: the two must be equal, '
                        'the data kept the same way', construct=f'{cp.qname}::{cls_.name}::agrees-with-constructor')
    # ... and in what is refused: a value the constructor does not take as data (an integer is not a sequence of bytes; bytes(5)
    # would make five zero bytes of it) is not taken by copy(data=...) either, and with skip_checks=True both keep an
    # out-of-range byte as it is
    o, scp = ctx.p.lookup_method(scls, 'copy')
    for what, val, extra in (('the int 5', 5, {}), ('True', True, {}), ('[300] with skip_checks=True', AList([300], 'list'), {'skip_checks': True})):
        def summary(outs):
            res = []
            for o_ in outs:
                if o_.kind == 'return' and isinstance(o_.value, AObj):
                    d_ = o_.value.attrs.get('data')
                    res.append(('return', tuple(d_.items) if isinstance(d_, AList) else tuple(d_) if isinstance(d_, (list, tuple)) else repr(d_)))
                elif o_.kind == 'raise':
                    res.append(('raise', o_.exc))
                else:
                    res.append((o_.kind, repr(o_.value)[:80]))
            return sorted(res, key=repr)
        by_copy = summary(ai.explore(lambda: ai.call_function(scp, [ai.apply(_CR(scls), ['sysex'], {'time': 3}, None)], dict(extra, data=val))))
        by_ctor = summary(ai.explore(lambda: ai.apply(_CR(scls), ['sysex'], dict(extra, time=3, data=val), None)))
        ctx.require(by_copy == by_ctor and len(by_ctor) == 1, 'R15.1', f'copy(sysex, data={what}) against the constructor', ctx.where(scp),
                    f'copy gives {by_copy}, the constructor called with the same values gives {by_ctor}: the two must agree',
                    construct=f'{scp.qname}::Message::refuses-what-the-constructor-refuses')
    for q in ai.inlined:
        ctx.functions.add(q)


def r15_hash_eq(ctx):
    base = ctx.p.cls(MSG, 'BaseMessage')
    o, eq = ctx.p.lookup_method(base, '__eq__')
    fz = ctx.p.cls(FZ, 'Frozen')
    hs = fz.methods.get('__hash__')
    if eq is None or hs is None:
        raise AnalysisError('__eq__/__hash__ not found')
    ctx.fn(eq)
    ctx.fn(hs)
    # abstractly interpreted: equal attribute dicts (whatever the insertion order) compare equal and hash equal; a difference
    # in any one attribute - time included - compares unequal; the hash depends on nothing but vars(self)
    ai = smf.make_interp(ctx)
    ai.builtin_summaries['hash'] = lambda i, a, k, n: ('hash', repr(a[0]) if a else '')
    freeze = ctx.p.func(FZ, 'freeze_message')

    def build(kind, delta=None, reverse=False, frozen=True):
        vals = {'channel': 1, 'note': 2, 'velocity': 3}
        time = 4
        if kind == 'note_on':
            if delta in vals:
                vals[delta] += 1
            m = wire.make_message(ctx, 'note_on' if delta != 'type' else 'note_off', vals, time + (1 if delta == 'time' else 0))
        else:
            m = wire.make_meta(ai, ctx, 'set_tempo' if delta != 'type' else 'text', {'tempo': 500000 + (1 if delta == 'tempo' else 0)} if delta != 'type' else {'text': 'x'},
                               time + (1 if delta == 'time' else 0))
        if frozen:
            m = ai.call_function(freeze, [m], {})
        if reverse:
            items = list(m.attrs.items())[::-1]
            m.attrs.clear()
            m.attrs.update(items)
        return m
    n = 0
    for kind, attrs in (('note_on', ['channel', 'note', 'velocity', 'time', 'type']), ('set_tempo', ['tempo', 'time', 'type'])):
        for frozen in (False, True):
            lab = f'{"frozen " if frozen else ""}{kind}'
            outs = ai.explore(lambda: ai.call_function(eq, [build(kind, frozen=frozen), build(kind, reverse=True, frozen=frozen)], {}))
            n += 1
            ctx.require(len(outs) == 1 and outs[0].kind == 'return' and outs[0].value is True, 'R15.5', f'__eq__({lab}, same attributes in another insertion order)',
                        ctx.where(eq), f'two messages with equal attributes compare {outs}', construct=f'{eq.qname}::vars')
            for d in attrs:
                outs = ai.explore(lambda: ai.call_function(eq, [build(kind, frozen=frozen), build(kind, delta=d, frozen=frozen)], {}))
                n += 1
                ctx.require(len(outs) == 1 and outs[0].kind == 'return' and outs[0].value is False, 'R15.5', f'__eq__({lab}, {d} differs)', ctx.where(eq),
                            f'messages that differ in {d} compare {outs}', construct=f'{eq.qname}::vars')
        outs = ai.explore(lambda: ai.call_function(eq, [build(kind), 5], {}))
        ctx.require(bool(outs) and all(o.kind == 'raise' and o.exc == 'TypeError' for o in outs), 'R15.5', f'__eq__({kind}, 5)', ctx.where(eq),
                    f'comparison with a non-message gives {outs} (documented: TypeError)', construct=f'{eq.qname}::non-message')
        outs = ai.explore(lambda: (ai.call_function(hs, [build(kind)], {}), ai.call_function(hs, [build(kind, reverse=True)], {})))
        n += 1
        ok = len(outs) == 1 and outs[0].kind == 'return' and isinstance(outs[0].value[0], tuple) and outs[0].value[0] == outs[0].value[1] \
            and 'Opaque' not in repr(outs[0].value[0])
        ctx.require(ok, 'R15.5', f'__hash__(frozen {kind})', ctx.where(hs),
                    f'two equal frozen messages whose attributes were stored in different order hash {outs} (equal messages must hash equal, '
                    'from vars(self) only)', construct=f'{hs.qname}::vars')
    # a time that is not equal to itself (nan is a real number, check_time lets it in): a copy, a frozen copy and a thawed one
    # carry the very same time object and are equal to the original - equality of the attribute dicts, not of picked fields
    thaw = ctx.p.func(FZ, 'thaw_message')
    nan = float('nan')
    for kind in ('note_on', 'set_tempo'):
        def variants():
            m = build(kind, frozen=False)
            m.attrs['time'] = nan
            o_, cp = ctx.p.lookup_method(m.cls, 'copy')
            c = ai.call_function(cp, [m], {})
            f = ai.call_function(freeze, [m], {})
            t = ai.call_function(thaw, [f], {})
            return [(lab_, ai.call_function(eq, [m, x], {})) for lab_, x in (('copy', c), ('frozen copy', f), ('thawed copy', t), ('itself', m))]
        outs = ai.explore(variants)
        n += 1
        ok = len(outs) == 1 and outs[0].kind == 'return' and all(v is True for _, v in outs[0].value)
        ctx.require(ok, 'R15.5', f'__eq__({kind} with time=nan, its copies)', ctx.where(eq),
                    f'a message whose time is nan compared with its copy / frozen copy / thawed copy / itself: {outs[0].value if ok is False and outs and outs[0].kind == "return" else outs}',
                    construct=f'{eq.qname}::vars')
    ctx.floor('R15.5-eq-hash', n, 22)
    for q in ai.inlined:
        ctx.functions.add(q)
    # no subclass overrides __eq__ / __hash__ inconsistently
    for m in ctx.p.modules.values():
        for c in m.classes.values():
            if c != base and ctx.p.is_subclass(c, base):
                for nm in ('__eq__', '__ne__'):
                    if nm in c.methods:
                        ctx.fail('R15.5', f'{c.name}.{nm}', f'{m.relpath}:{c.node.lineno} {c.name}', f'{c.name} overrides {nm}', construct=f'{c.qname}::{nm}')
    # everything stored is hashable: spec defaults and stored sequences
    reg = wire.meta_registry(ctx)
    n = 0
    for name, c in sorted(reg.items()):
        v = ctx.p.class_attr(c, 'defaults')
        if v is None or not isinstance(v, (ast.List, ast.Tuple)):
            continue
        for i, el in enumerate(v.elts):
            n += 1
            bad = isinstance(el, (ast.List, ast.Dict, ast.Set, ast.ListComp, ast.DictComp, ast.SetComp))
            ctx.require(not bad, 'R15.5', f'MetaSpec_{name}.defaults[{i}]', f'{c.module.relpath}:{v.lineno} {c.name}',
                        f'default value {unparse(el)} is a mutable, unhashable object: a frozen default message cannot be hashed '
                        '(and all messages share one list)', construct=f'{c.qname}::defaults::unhashable')
    ctx.floor('R15.5-defaults', n, 20)
    r15_canonical(ctx)


def r15_canonical(ctx):
    """Every way of making a message leaves it in the one canonical form: sequence-valued attributes are tuples and always
    present (an unknown meta message made without a payload has data == (), not a missing attribute) - repr, ==, hash and the
    copies all read vars()."""
    # a message made with every attribute left out equals the one made with the default values written out (what repr prints
    # and eval reads back): the constructor does to an explicit value what it does to the default
    from ..fold import ClassRef as _CR2
    ai0 = smf.make_interp(ctx)
    mcls0 = ctx.p.cls(META, 'MetaMessage')
    n0 = 0
    for tname in sorted(reference.META_SPECS):
        n0 += 1

        def thunk_d(tname=tname):
            a = ai0.apply(_CR2(mcls0), [tname], {}, None)
            kw = {k: v for k, v in a.attrs.items() if k != 'type'}
            b = ai0.apply(_CR2(mcls0), [tname], dict(kw), None)
            return a, b
        outs = ai0.explore(thunk_d)
        ok = len(outs) == 1 and outs[0].kind == 'return' and all(isinstance(x, AObj) for x in outs[0].value)
        if ok:
            a, b = outs[0].value
            ok = attrs_equal(a.attrs, b.attrs) and all(_seq_kind(a.attrs[k]) == _seq_kind(b.attrs.get(k)) for k in a.attrs)
        ctx.require(ok, 'R15.5', f'MetaMessage({tname!r}) against the same with its defaults written out', f'{mcls0.module.relpath}:{mcls0.node.lineno} MetaMessage',
                    f'{str(outs)[:300]}: a default value given explicitly is stored differently from the default itself '
                    '(eval(repr(m)) of the default message is then not equal to m)', construct=f'{mcls0.qname}::defaults-fixed-point')
    ctx.floor('R15.5-default-fixed-point', n0, 17)
    # decoders/constructors normalise sequences to tuples
    um = ctx.p.cls(META, 'UnknownMetaMessage')
    init = um.methods.get('__init__')
    ai2 = smf.make_interp(ctx)
    for given, label in ((AList([1, SeqVar('U', 255)], 'list'), 'a list'), (AList([1, 2], 'bytearray'), 'a bytearray'), (None, 'None')):
        outs = ai2.explore(lambda: ai2.apply(ClassRef(um), [0x60], {'data': given} if given is not None else {}, None))
        ok = len(outs) == 1 and outs[0].kind == 'return' and isinstance(outs[0].value, AObj)
        if ok:
            d_ = outs[0].value.attrs.get('data')
            ok = (isinstance(d_, AList) and d_.kind == 'tuple') or isinstance(d_, tuple)
        ctx.require(ok, 'R15.5', f'UnknownMetaMessage(data={label})', ctx.where(init), f'data given as {label} is stored as {outs}: not normalised to a tuple '
                    '(unhashable, and unequal to what the reader builds)', construct=f'{init.qname}::tuple')
    # sysex data is a tuple however the message was made - the skip_checks=True constructor path and copy(skip_checks=True, data=...)
    # included: a frozen message holding the caller's list cannot be hashed, and it changes when the caller's list does
    for cname in ('Message', 'FrozenMessage'):
        mc_ = ctx.p.cls(MSG if cname == 'Message' else FZ, cname)
        for how in ('constructor', 'copy'):
            holder = {}

            def thunk(mc_=mc_, how=how):
                lst = AList([1, 2, 3], 'list')
                holder['lst'] = lst
                if how == 'constructor':
                    return ai2.apply(ClassRef(mc_), ['sysex'], {'skip_checks': True, 'data': lst}, None)
                m0 = ai2.apply(ClassRef(mc_), ['sysex'], {}, None)
                o_, cp = ctx.p.lookup_method(mc_, 'copy')
                return ai2.call_function(cp, [m0], {'skip_checks': True, 'data': lst})
            outs = ai2.explore(thunk)
            ok = len(outs) == 1 and outs[0].kind == 'return' and isinstance(outs[0].value, AObj)
            d_ = outs[0].value.attrs.get('data') if ok else None
            ok = ok and ((isinstance(d_, AList) and d_.kind == 'tuple') or isinstance(d_, tuple)) and d_ is not holder['lst']
            o_, init_ = ctx.p.lookup_method(mc_, '__init__')
            ctx.require(ok, 'R15.5', f'{cname}("sysex", skip_checks=True, data=<list>) via {how}', ctx.where(init_),
                        f'sysex data given as a list with skip_checks=True is stored as {d_!r}{"" if ok or len(outs) == 1 else " " + str(outs)}: the message holds the '
                        "caller's mutable list (a frozen one is unhashable and changes under its owner's feet)", construct=f'{init_.qname}::sysex-tuple(skip_checks)')
    sd = ctx.p.cls(MSG, 'SysexData')
    ctx.require(any(k.name == 'tuple' or unparse(b) == 'tuple' for k in [sd] for b in sd.node.bases) or
                any(getattr(k, 'name', '') == 'tuple' for k in ctx.p.mro(sd)), 'R15.5', 'SysexData', f'{sd.module.relpath}:{sd.node.lineno} SysexData',
                'SysexData is not a tuple', construct=f'{sd.qname}::tuple')


def r15_ctor(ctx):
    """copy(**overrides) is compared with a freshly constructed message: the constructor itself checks what it stores, invalid
    times included (shared with C03 R03.3: a falsy non-number time must not be replaced by the default before the check)."""
    from . import c03
    ctx.borrow(c03.r03_3_init, 'R15.6')


RULES = [('R15.6', r15_ctor), ('R15-freeze-thaw', r15_freeze_thaw), ('R15-frozen', r15_frozen), ('R15-copy', r15_copy), ('R15-hash-eq', r15_hash_eq)]
