#!/usr/bin/env python3
"""tools/ref_eval.py PROP K - confirm a behaviour-preserving refactoring from a sub-agent and check that every check stays silent.
Writes /verif/refactors/PROP-K/{patch.diff,demo.py,meta.json}."""
import json, os, shutil, subprocess, sys
prop, k = sys.argv[1], sys.argv[2]
wt = os.environ.get('REF_WT_PREFIX', '/tmp/seed_') + prop
py = '/venv/bin/python'
env = dict(os.environ, PYTHONPATH=wt)
def run(cmd, timeout=900):
    return subprocess.run(cmd, cwd=wt, env=env, capture_output=True, text=True, timeout=timeout)
diff, demo, meta = f'{wt}/ref{k}.diff', f'{wt}/ref{k}_demo.py', f'{wt}/ref{k}_meta.txt'
assert os.path.exists(diff) and os.path.exists(demo), 'missing deliverables'
run(['git', 'checkout', '--', 'mido']); run(['git', 'clean', '-fdq', 'mido'])
clean_demo = run(['timeout', '200', py, demo]).returncode
a = run(['git', 'apply', diff]); assert a.returncode == 0, a.stderr
try:
    t = run(['timeout', '800', py, '-m', 'pytest', '-q', '-p', 'no:cacheprovider', 'tests'])
    d = run(['timeout', '200', py, demo]).returncode
    checks = {}
    for i in range(1, 21):
        pid = f'C{i:02d}'
        c = subprocess.run(['/verif/check', pid, '--repo', wt, '--evidence-dir', f'/tmp/ev_ref_{prop}'], capture_output=True, text=True, timeout=600)
        lines = [ln for ln in c.stdout.splitlines() if (' - R' in ln or 'ANALYSIS-ERROR' in ln or 'analysable' in ln) and not ln.startswith('KNOWN')]
        checks[pid] = (c.returncode, lines[:3])
finally:
    run(['git', 'checkout', '--', 'mido']); run(['git', 'clean', '-fdq', 'mido'])
shutil.rmtree(f'/tmp/ev_ref_{prop}', ignore_errors=True)
alarms = {p: v for p, v in checks.items() if v[0] != 0}
print(f'{prop}-{k}: pytest exit {t.returncode} | demo clean rc={clean_demo} refactored rc={d} | alarms: {sorted(alarms) or "none"}')
for p, v in alarms.items():
    for ln in v[1]:
        print(f'   {p} rc={v[0]} {ln[:300]}')
out = f'/verif/refactors/{prop}-{k}'
os.makedirs(out, exist_ok=True)
shutil.copy(diff, f'{out}/patch.diff'); shutil.copy(demo, f'{out}/demo.py')
json.dump({'property': prop, 'behaviour_preserving_confirmed': t.returncode == 0 and clean_demo == 0 and d == 0,
           'what': open(meta).read() if os.path.exists(meta) else '', 'pytest_exit': t.returncode, 'demo_rc_clean_tree': clean_demo,
           'demo_rc_refactored': d, 'alarms': {p: v[1] for p, v in alarms.items()}}, open(f'{out}/meta.json', 'w'), indent=1)
