#!/usr/bin/env python3
"""Regenerates seeded/INDEX.md and refactors/INDEX.md from the meta.json files (developer helper)."""
import json, os
ROOT = os.path.dirname(os.path.dirname(os.path.abspath(__file__)))
rows = []
for name in sorted(os.listdir(f'{ROOT}/seeded')):
    mp = f'{ROOT}/seeded/{name}/meta.json'
    if os.path.exists(mp):
        m = json.load(open(mp))
        what = (m.get('what_it_needs') or '').strip().splitlines()
        first = m['caught_by'].get(m['property'], '')
        rule = first.split(' - ')[1] if first.count(' - ') >= 2 else ''
        rows.append(f"| {name} | {'yes' if m.get('valid') else 'NO'} | {m.get('own_check_exit')} | {rule} | {', '.join(sorted(m['caught_by']))} | {(what[0] if what else '')[:140]} |")
open(f'{ROOT}/seeded/INDEX.md', 'w').write(
    '# Seeded breaking changes (from sub-agents that saw only the property text)\n\n'
    'Each directory: `patch.diff` (apply with `git -C /repo apply`), `demo.py` (exit 0 on the clean tree, non-zero with the change), `meta.json`.\n'
    'Re-evaluate all of them against the current checker with `tools/reeval.py seeded`.\n\n'
    '| change | confirmed (tests pass, demo fails) | own check exit | first rule reporting | checks reporting | what it is |\n|---|---|---|---|---|---|\n' + '\n'.join(rows) + '\n')
rows = []
for name in sorted(os.listdir(f'{ROOT}/refactors')):
    mp = f'{ROOT}/refactors/{name}/meta.json'
    if os.path.exists(mp):
        m = json.load(open(mp))
        what = (m.get('what') or '').strip().splitlines()
        rows.append(f"| {name} | {'yes' if m.get('behaviour_preserving_confirmed') else 'NO'} | {', '.join(sorted(m['alarms'])) or 'none'} | {(what[0] if what else '')[:160]} |")
open(f'{ROOT}/refactors/INDEX.md', 'w').write(
    '# Behaviour-preserving refactorings (false-alarm probes, from sub-agents that saw only the property text)\n\n'
    'Each directory: `patch.diff`, `demo.py` (exit 0 with and without the refactoring), `meta.json` (alarms raised by the current checker).\n'
    'Re-evaluate with `tools/reeval.py refactors`.  Alarms met at first contact and what was corrected: DESIGN.md §6.2.\n\n'
    '| refactoring | confirmed (tests pass, demo unchanged) | alarms now | what it is |\n|---|---|---|---|\n' + '\n'.join(rows) + '\n')
print('indexes written')
