#!/usr/bin/env python3
"""tools/seed_eval.py PROP K  - confirm a sub-agent's seeded change in its scratch worktree and run the checks on it.
Writes /verif/seeded/PROP-K/{patch.diff,demo.py,meta.json}."""
import json, os, re, shutil, subprocess, sys
prop, k = sys.argv[1], sys.argv[2]
wt = f'/tmp/seed_{prop}'
py = '/venv/bin/python'
env = dict(os.environ, PYTHONPATH=wt)
def run(cmd, timeout=900, **kw):
    return subprocess.run(cmd, cwd=wt, env=env, capture_output=True, text=True, timeout=timeout, **kw)
diff = f'{wt}/seed{k}.diff'
demo = f'{wt}/seed{k}_demo.py'
meta = f'{wt}/seed{k}_meta.txt'
assert os.path.exists(diff) and os.path.exists(demo), 'missing deliverables'
run(['git', 'checkout', '--', 'mido'])
r = run(['timeout', '120', py, demo]); clean_demo = r.returncode
a = run(['git', 'apply', diff]); assert a.returncode == 0, a.stderr
try:
    t = run(['timeout', '800', py, '-m', 'pytest', '-q', '-p', 'no:cacheprovider', 'tests'])
    tail = (f'pytest exit {t.returncode}: ' + (t.stdout.strip().splitlines()[-1] if t.stdout.strip() else t.stderr[-200:]))
    d = run(['timeout', '120', py, demo]); seeded_demo = d.returncode
    checks = {}
    for i in range(1, 21):
        pid = f'C{i:02d}'
        c = subprocess.run(['/verif/check', pid, '--repo', wt, '--evidence-dir', f'/tmp/ev_seed_{prop}'], capture_output=True, text=True, timeout=600)
        first = next((ln for ln in c.stdout.splitlines() if ' - R' in ln and not ln.startswith('KNOWN')), '')
        checks[pid] = (c.returncode, first[:260])
finally:
    run(['git', 'checkout', '--', 'mido'])
shutil.rmtree(f'/tmp/ev_seed_{prop}', ignore_errors=True)
caught = {p: v for p, v in checks.items() if v[0] != 0}
print(f'{prop}-{k}: tests: {tail} | demo clean rc={clean_demo} seeded rc={seeded_demo} | own check rc={checks[prop][0]} | caught by {sorted(caught)}')
for p, v in caught.items():
    print(f'   {p} rc={v[0]} {v[1]}')
valid = clean_demo == 0 and seeded_demo != 0 and t.returncode == 0
out = f'/verif/seeded/{prop}-{k}'
os.makedirs(out, exist_ok=True)
shutil.copy(diff, f'{out}/patch.diff'); shutil.copy(demo, f'{out}/demo.py')
json.dump({'property': prop, 'valid': valid, 'what_it_needs': open(meta).read() if os.path.exists(meta) else '',
           'tests_with_change': tail, 'demo_rc_clean_tree': clean_demo, 'demo_rc_with_change': seeded_demo,
           'ran': [f'git apply patch.diff (scratch worktree {wt})', 'pytest -q -p no:cacheprovider tests', 'demo.py with and without the change',
                   './check C01..C20 --repo <scratch worktree>'],
           'own_check_exit': checks[prop][0], 'caught_by': {p: v[1] for p, v in caught.items()}}, open(f'{out}/meta.json', 'w'), indent=1)
