#!/usr/bin/env python3
"""tools/reeval.py [seeded|refactors|all] [PROP-K ...] - re-run every check on scratch copies of /repo carrying the recorded
seeded changes / behaviour-preserving refactorings, and rewrite the verdict part of their meta.json.
Scratch copies live under a temporary directory and are removed."""
import json, os, shutil, subprocess, sys, tempfile
from concurrent.futures import ThreadPoolExecutor
ROOT = os.path.dirname(os.path.dirname(os.path.abspath(__file__)))
which = sys.argv[1] if len(sys.argv) > 1 else 'all'
only = set(sys.argv[2:])
PIDS = [f'C{i:02d}' for i in range(1, 21)]


def one(kind, name):
    d = os.path.join(ROOT, kind, name)
    tmp = tempfile.mkdtemp(prefix=f're_{name}_')
    try:
        wt = os.path.join(tmp, 'repo')
        shutil.copytree('/repo', wt, ignore=shutil.ignore_patterns('.git', '__pycache__', '*.pyc', 'docs'))
        a = subprocess.run(['patch', '-p1', '-s', '-i', os.path.join(d, 'patch.diff')], cwd=wt, capture_output=True, text=True)
        if a.returncode != 0:
            return kind, name, None, 'patch does not apply: ' + a.stdout[-200:]
        res = {}
        for pid in PIDS:
            c = subprocess.run([os.path.join(ROOT, 'check'), pid, '--repo', wt, '--evidence-dir', os.path.join(tmp, 'ev')],
                               capture_output=True, text=True, timeout=900)
            lines = [ln for ln in c.stdout.splitlines() if (' - R' in ln or 'ANALYSIS-ERROR' in ln or 'analysable' in ln) and not ln.startswith('KNOWN')]
            if c.returncode != 0:
                res[pid] = (c.returncode, lines[:3])
        return kind, name, res, ''
    finally:
        shutil.rmtree(tmp, ignore_errors=True)


jobs = []
for kind in ('seeded', 'refactors'):
    if which not in (kind, 'all'):
        continue
    for name in sorted(os.listdir(os.path.join(ROOT, kind))):
        if os.path.isdir(os.path.join(ROOT, kind, name)) and (not only or name in only):
            jobs.append((kind, name))
bad = 0
with ThreadPoolExecutor(16) as ex:
    for kind, name, res, err in ex.map(lambda j: one(*j), jobs):
        prop = name.split('-')[0]
        mp = os.path.join(ROOT, kind, name, 'meta.json')
        meta = json.load(open(mp))
        if res is None:
            print(f'{kind}/{name}: {err}'); bad += 1
            continue
        if kind == 'seeded':
            meta['own_check_exit'] = res.get(prop, (0, []))[0]
            meta['caught_by'] = {p: (v[1][0][:260] if v[1] else '') for p, v in res.items()}
            ok = meta['own_check_exit'] == 1
            print(f'{kind}/{name}: own check rc={meta["own_check_exit"]} caught by {sorted(res)}' + ('' if ok else '   <<<<<< MISSED'))
        else:
            meta['alarms'] = {p: v[1] for p, v in res.items()}
            ok = not res
            print(f'{kind}/{name}: alarms {sorted(res) or "none"}' + ('' if ok else '   <<<<<< FALSE ALARM'))
            for p, v in res.items():
                for ln in v[1]:
                    print(f'     {p} rc={v[0]} {ln[:300]}')
        bad += not ok
        json.dump(meta, open(mp, 'w'), indent=1)
print('not as expected:', bad)
