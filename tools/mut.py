#!/venv/bin/python
"""tools/mut.py PROPS file old new  - apply a textual edit on a scratch copy of /repo/mido and run checks.
PROPS comma separated.  Prints rc and violation lines.  (Developer helper, not a registered check.)"""
import os, shutil, subprocess, sys, tempfile
props, rel, old, new = sys.argv[1:5]
d = tempfile.mkdtemp(prefix='mut_')
try:
    shutil.copytree('/repo/mido', os.path.join(d, 'mido'))
    p = os.path.join(d, rel)
    s = open(p).read()
    if old not in s:
        print('OLD TEXT NOT FOUND'); sys.exit(3)
    open(p, 'w').write(s.replace(old, new, 1))
    import py_compile
    py_compile.compile(p, doraise=True)
    for prop in props.split(','):
        r = subprocess.run(['/verif/check', prop, '--repo', d, '--evidence-dir', os.path.join(d, 'ev')],
                           capture_output=True, text=True)
        out = [l for l in r.stdout.splitlines() if not l.startswith('VIOLATION') and not l.startswith('KNOWN-FINDING')]
        print(f'{prop}: rc={r.returncode}')
        for l in out[1:6]:
            print('   ', l[:300])
        if r.stderr.strip():
            print(r.stderr[-500:])
finally:
    shutil.rmtree(d, ignore_errors=True)
