#!/usr/bin/env python3
"""Regenerates /verif/MANIFEST.json from the table below (developer helper)."""
import json, os, importlib, sys
HERE = os.path.dirname(os.path.dirname(os.path.abspath(__file__)))
sys.path.insert(0, HERE)
CHECKS = {
 'C01': dict(tech='abstract interpretation of encoder/decoder in a bit-layout domain + folded check table vs MIDI 1.0 reference',
             text='Closed symbolic proof per message type over the whole attribute domain (not sampled): layouts of encode_message/decode_message are computed by abstract interpretation and compared bit for bit with each other and with the MIDI 1.0 table; check functions are reduced to the integer sets they accept.',
             note='Trusted: midolint folder/bit domain/abstract interpreter and the transcribed MIDI 1.0 + docs tables. Assumes attributes are Integral instances behaving like int. hex/from_hex agreement is decided structurally (two-digit format spec, bytearray.fromhex).',
             ref='DESIGN.md §3 C01'),
 'C02': dict(tech='abstract interpretation of from_bytes over all first bytes x data lengths with symbolic data; outcome sets compared with the MIDI 1.0 acceptance table',
             text='For every first byte 0..255 x 0..4 data bytes and nine sysex shapes the complete set of outcomes (return / which exception) of Message.from_bytes is computed abstractly; accepted shapes must be exactly the complete single messages, every other shape must raise ValueError, no implicit IndexError/KeyError may escape, and check_data must cover exactly the data bytes.',
             note='Trusted: abstract interpreter model of len/index/slice; MIDI 1.0 table. Not decided: inputs that are not sequences; exception type for a non-integer FIRST item. Reproduction of the input by bytes() rests on the C01 bijection obligation (R01.3b).',
             ref='DESIGN.md §3 C02'),
}
CHECKS.update({
 'C03': dict(tech='abstract interpretation of every writer of message state with logging check summaries; interval-set reduction of the check functions; package-wide scan for attribute-dict writers; MRO resolution of __setattr__/__delattr__',
             text='Every construct in mido/ that can write a message attribute dict is enumerated and must be one of the analysed writers; Message.__init__, copy, _setattr, from_bytes, SysexData.__iadd__ and check_msgdict are abstractly interpreted with opaque marker values: a check of the stored value precedes the first store on every outcome, rejected names raise before any store, copy never writes the original; the check table is exhaustive and each check accepts exactly the documented integer set.',
             note='Trusted: abstract interpreter, folder, transcribed documentation table. Excluded by the property itself: skip_checks=True. Not decided: skip_checks/self smuggled as a key inside a dict or text passed to from_dict/from_str.',
             ref='DESIGN.md §3 C03'),
 'C04': dict(tech='one-step abstract interpretation of Tokenizer.feed_byte over 30 abstract pre-states x 256 bytes against a reference transition relation; structural rules on Parser',
             text='Inductive argument over one-step summaries: for every abstract pre-state and every byte value the transition never raises, emits exactly the token a MIDI 1.0 tokenizer emits (real-time bytes exactly once, completed messages made of the status and the bytes received in order), keeps tokens already pending, never aliases an emitted buffer from a non-idle state and re-establishes the state invariant; every token shape is one C02 proves decodable; Parser._decode/feed are matched structurally.',
             note='Trusted: abstract interpreter; the reference transition relation in midolint/rules/c04.py (allows both reset and keep where the properties allow both); C02 for token->message. No byte stream is executed.',
             ref='DESIGN.md §3 C04'),
 'C05': dict(tech='structural fold/ownership/FIFO rules over the resolved program + the C04 one-step transitions',
             text='Chunking independence follows from structure: Tokenizer.feed is exactly a fold of feed_byte, Parser.feed/feed_byte are tokenizer-call-then-decode on every path, tokenizer fields have a closed writer set, no method reads anything but fields/arguments/constants, transitions keep pending tokens, only append/extend/popleft ever touch a message queue anywhere in mido/, pending/get_message/__iter__ observe the same deque from the left, ParserQueue feeds and drains under one lock.',
             note='Trusted: name resolution and path enumeration; deque semantics. Interleavings of retrieval and feeding commute because their effect sets meet only in the deque (append right / pop left) - argued, not enumerated.',
             ref='DESIGN.md §3 C05'),
 'C06': dict(tech='one-step abstract transitions of the tokenizer read as resynchronisation obligations',
             text='For every status byte that starts a message the post-state is the fresh state whatever the pre-state was (prefix forgotten); a real-time byte inside an open sysex leaves the sysex state untouched and is queued at once; from the fresh state data bytes complete exactly one token at the last byte; emitted buffers are final. With C02 this gives parse(P + encode(M)) = parse(P) + [M] by induction over bytes.',
             note='Trusted: as C04. Chains of length <= 3 are covered by the k-indexed pre-states; no stream is run.',
             ref='DESIGN.md §3 C06'),
 'C07': dict(tech='abstract interpretation of write_track/read_track/_save/_load over symbolic tracks in a wire-format domain (bit layouts, VLQ markers, struct fields, symbolic runs)',
             text='About 60 symbolic tracks (all message kinds, running-status runs and breaks, sysex, all meta types incl. unknown, end_of_track placements) are written abstractly, the chunk length is compared with what follows, the items are served back to the abstractly interpreted reader and every message must come back equal in class, attributes and delta time with one trailing end_of_track; header round trip, save() and write_track guards (real-time, negative/non-integral time, type 0 track count), REALTIME_TYPES = real-time rows of SPECS.',
             note='Trusted: abstract interpreter and wire domain; VLQ/read_bytes/struct/encode_string summaries (bodies checked by C08 R08.1, C09 R09.6, C17). Not decided: equality of arbitrary whole files, load-save-load fixed point on mutated bytes (values, not shape).',
             ref='DESIGN.md §3 C07'),
 'C08': dict(tech='abstract interpretation of writer and reader against an independent reference SMF encoder; bit-layout analysis of the VLQ functions; range-class tracing of clip',
             text='Writer output for ~60 symbolic tracks must equal the reference SMF 1.0 encoding item for item (running status rules, sysex/meta framing, FF 2F 00, chunk lengths, header); the reader is interpreted on the reference encodings incl. legal alternatives (running status, long header, tracks without end_of_track ending in 2-byte events); encode_variable_int/read_variable_int/decode_variable_int are interpreted in the bit domain for 1..5 groups, minimal and padded; clip is traced for byte classes 0..126/127/128..255 in channel and sysex data; the debug wrapper is a transparent observer.',
             note='Trusted: midolint.smf reference encoder and SMF tables (the oracle), abstract interpreter. Not decided: byte-exact comparison with an external decoder over all event lists.',
             ref='DESIGN.md §3 C08'),
 'C09': dict(tech='interval-set reduction of the spec check methods vs documentation; abstract interpretation of MetaMessage.bytes/build_meta_message/from_bytes/__init__/_setattr in the bit-layout domain; finite table walks',
             text='Per meta type: accepted domain = documented domain, encoding = FF type VLQ(len(payload)) payload with every item a byte and the SMF bit layout, decode(encode(m)) = m through the reader path, from_bytes on payload lengths at the VLQ boundaries, all 256 denominators and 30 keys enumerated through check/encode/decode, check-before-store in __init__/_setattr at both range limits, registry and read_bytes limit.',
             note='Known findings D6 (smpte_offset hours overlap) and D7 (sequencer_specific unchecked) are listed in known_findings.json. Trusted: abstract interpreter, SMF meta table, documentation table. Text payloads are symbolic byte runs (codec behaviour is C17 / not decided).',
             ref='DESIGN.md §3 C09'),
})
NA = {}
def main():
    props = [json.loads(l) for l in open(os.path.join(HERE, 'properties.jsonl'))]
    checks = []
    na = []
    for p in props:
        pid = p['id']
        if pid in CHECKS and os.path.exists(os.path.join(HERE, 'midolint', 'rules', pid.lower() + '.py')):
            c = CHECKS[pid]
            mod = importlib.import_module(f'midolint.rules.{pid.lower()}')
            checks.append({
                'property_id': pid,
                'quick_cmd': f'./check {pid}',
                'thorough_cmd': f'./check {pid} --tier thorough',
                'evidence_file': f'/verif/evidence/{pid}.json',
                'replay_cmd_template': f'./check {pid} --replay {{path}}',
                'engine': 'midolint',
                'level_claimed': {'category': mod.LEVEL, 'text': c['text'], 'design_ref': c['ref']},
                'level_note': c['note'],
                'technique': 'static analysis: ' + c['tech'],
            })
        else:
            na.append({'property_id': pid, 'reason': NA.get(pid, 'static check for this property is not built yet in this revision (work in progress)')})
    man = {
        'version': 1,
        'setup_cmd': 'true',
        'hooks': {
            'guard': 'MIDO_MIDO_VERIF',
            'enable': 'none needed - the source is analysed, not instrumented; no hook exists in /repo',
            'baseline_off_cmd': 'cd /repo && /venv/bin/python -m pytest -ra -q -p no:cacheprovider --timeout=900 --continue-on-collection-errors',
            'source_commits': [],
            'add_only': True,
        },
        'engines': [{'name': 'midolint', 'path': '/verif/midolint', 'serves_properties': [c['property_id'] for c in checks],
                     'kind_free_text': 'repository-specific static analyser on the Python ast: program model (imports, MRO, aliases), constant folder for module tables, path enumeration, bit-layout abstract domain, abstract interpreter for codec functions, interval sets for guards, effect/lockset/exception-flow rules. Pure stdlib, run with /venv/bin/python; never imports or runs mido.'}],
        'checks': checks,
        'not_applicable': na,
        'notes': 'Exit codes: 0 held (KNOWN-FINDING lines for listed open findings), 1 VIOLATION, 2 ANALYSIS-ERROR (anchor missing / checker cannot analyse). Known findings: /verif/known_findings.json. MIDOLINT_REPO overrides the analysed tree (default /repo).',
    }
    json.dump(man, open(os.path.join(HERE, 'MANIFEST.json'), 'w'), indent=1)
    print(len(checks), 'checks,', len(na), 'not applicable')
main()
