#!/usr/bin/env python3
"""Regenerates /verif/MANIFEST.json from the table below (developer helper)."""
import json, os, importlib, sys
HERE = os.path.dirname(os.path.dirname(os.path.abspath(__file__)))
sys.path.insert(0, HERE)
CHECKS = {
 'C01': dict(tech='abstract interpretation of encoder/decoder in a bit-layout domain + folded check table vs MIDI 1.0 reference',
             text='Closed symbolic proof per message type over the whole attribute domain (not sampled): layouts of encode_message/decode_message are computed by abstract interpretation and compared bit for bit with each other and with the MIDI 1.0 table; check functions are reduced to the integer sets they accept.',
             note='Trusted: midolint folder/bit domain/abstract interpreter and the transcribed MIDI 1.0 + docs tables. Assumes attributes are Integral instances behaving like int. hex/from_hex agreement is decided structurally (two-digit format spec, bytearray.fromhex).',
             ref='DESIGN.md §3 C01'),
 'C02': dict(tech='abstract interpretation of from_bytes over all first bytes x data lengths with symbolic data; outcome sets compared with the MIDI 1.0 acceptance table',
             text='For every first byte 0..255 x 0..4 data bytes and nine sysex shapes the complete set of outcomes (return / which exception) of Message.from_bytes is computed abstractly; accepted shapes must be exactly the complete single messages, every other shape must raise ValueError, no implicit IndexError/KeyError may escape, and check_data must cover exactly the data bytes.',
             note='Trusted: abstract interpreter model of len/index/slice; MIDI 1.0 table. Not decided: inputs that are not sequences; exception type for a non-integer FIRST item. Reproduction of the input by bytes() rests on the C01 bijection obligation (R01.3b).',
             ref='DESIGN.md §3 C02'),
}
NA = {}
def main():
    props = [json.loads(l) for l in open(os.path.join(HERE, 'properties.jsonl'))]
    checks = []
    na = []
    for p in props:
        pid = p['id']
        if pid in CHECKS and os.path.exists(os.path.join(HERE, 'midolint', 'rules', pid.lower() + '.py')):
            c = CHECKS[pid]
            mod = importlib.import_module(f'midolint.rules.{pid.lower()}')
            checks.append({
                'property_id': pid,
                'quick_cmd': f'./check {pid}',
                'thorough_cmd': f'./check {pid} --tier thorough',
                'evidence_file': f'/verif/evidence/{pid}.json',
                'replay_cmd_template': f'./check {pid} --replay {{path}}',
                'engine': 'midolint',
                'level_claimed': {'category': mod.LEVEL, 'text': c['text'], 'design_ref': c['ref']},
                'level_note': c['note'],
                'technique': 'static analysis: ' + c['tech'],
            })
        else:
            na.append({'property_id': pid, 'reason': NA.get(pid, 'static check for this property is not built yet in this revision (work in progress)')})
    man = {
        'version': 1,
        'setup_cmd': 'true',
        'hooks': {
            'guard': 'MIDO_MIDO_VERIF',
            'enable': 'none needed - the source is analysed, not instrumented; no hook exists in /repo',
            'baseline_off_cmd': 'cd /repo && /venv/bin/python -m pytest -ra -q -p no:cacheprovider --timeout=900 --continue-on-collection-errors',
            'source_commits': [],
            'add_only': True,
        },
        'engines': [{'name': 'midolint', 'path': '/verif/midolint', 'serves_properties': [c['property_id'] for c in checks],
                     'kind_free_text': 'repository-specific static analyser on the Python ast: program model (imports, MRO, aliases), constant folder for module tables, path enumeration, bit-layout abstract domain, abstract interpreter for codec functions, interval sets for guards, effect/lockset/exception-flow rules. Pure stdlib, run with /venv/bin/python; never imports or runs mido.'}],
        'checks': checks,
        'not_applicable': na,
        'notes': 'Exit codes: 0 held (KNOWN-FINDING lines for listed open findings), 1 VIOLATION, 2 ANALYSIS-ERROR (anchor missing / checker cannot analyse). Known findings: /verif/known_findings.json. MIDOLINT_REPO overrides the analysed tree (default /repo).',
    }
    json.dump(man, open(os.path.join(HERE, 'MANIFEST.json'), 'w'), indent=1)
    print(len(checks), 'checks,', len(na), 'not applicable')
main()
