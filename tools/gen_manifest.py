#!/usr/bin/env python3
"""Regenerates /verif/MANIFEST.json from the table below (developer helper)."""
import json, os, importlib, sys
HERE = os.path.dirname(os.path.dirname(os.path.abspath(__file__)))
sys.path.insert(0, HERE)
CHECKS = {
 'C01': dict(tech='abstract interpretation of encoder/decoder in a bit-layout domain + folded check table vs MIDI 1.0 reference; string-domain interpretation of hex/from_hex',
             text='Closed symbolic proof per message type over the whole attribute domain (not sampled): layouts of encode_message/decode_message are computed by abstract interpretation and compared bit for bit with each other and with the MIDI 1.0 table; check functions are reduced to the integer sets they accept. bytes()/bin()/hex()/from_hex are interpreted in the symbolic string domain for all 18 types: the text denotes exactly the encoder bytes (default and custom separator) and parses back to the message with the time passed in.',
             note='Trusted: midolint folder/bit domain/abstract interpreter and the transcribed MIDI 1.0 + docs tables. Assumes attributes are Integral instances behaving like int.',
             ref='DESIGN.md §3 C01'),
 'C02': dict(tech='abstract interpretation of from_bytes over all first bytes x data lengths with symbolic data; outcome sets compared with the MIDI 1.0 acceptance table; outcome-set equivalence of from_hex and from_bytes',
             text='For every first byte 0..255 x 0..4 data bytes and nine sysex shapes the complete set of outcomes (return / which exception) of Message.from_bytes is computed abstractly; accepted shapes must be exactly the complete single messages, every other shape must raise ValueError, no implicit IndexError/KeyError may escape, and check_data must cover exactly the data bytes. from_hex(text) is shown equivalent to from_bytes(the bytes the text denotes) by comparing outcome sets on 18 status bytes x 0..3 data bytes over 0..255, separators and malformed text.',
             note='Trusted: abstract interpreter model of len/index/slice; MIDI 1.0 table. Not decided: inputs that are not sequences; exception type for a non-integer FIRST item. Reproduction of the input by bytes() rests on the C01 bijection obligation (R01.3b).',
             ref='DESIGN.md §3 C02'),
}
CHECKS.update({
 'C03': dict(tech='abstract interpretation of every writer of message state with logging check summaries; interval-set reduction of the check functions; package-wide scan for attribute-dict writers; MRO resolution of __setattr__/__delattr__',
             text='Every construct in mido/ that can write a message attribute dict is enumerated and must be one of the analysed writers; Message.__init__, copy, _setattr, from_bytes, SysexData.__iadd__ and check_msgdict are abstractly interpreted with opaque marker values: a check of the stored value precedes the first store on every outcome, rejected names raise before any store, copy never writes the original; the check table is exhaustive and each check accepts exactly the documented integer set. Sysex data given as a one-shot iterable (generator) is modelled: whatever ends up stored must have been seen by the check. Entries of the check table may be plain functions or closures made by a factory (summarised by identity, domains derived with their captured constants); helpers inlined while an analysed writer was interpreted count as analysed.',
             note='Trusted: abstract interpreter, folder, transcribed documentation table. Excluded by the property itself: skip_checks=True. Not decided: skip_checks/self smuggled as a key inside a dict or text passed to from_dict/from_str.',
             ref='DESIGN.md §3 C03'),
 'C04': dict(tech='one-step abstract interpretation of Tokenizer.feed_byte over 30 abstract pre-states x 256 bytes against a reference transition relation; abstract interpretation of Parser on a symbolic stream',
             text='Inductive argument over one-step summaries: for every abstract pre-state and every byte value the transition never raises, emits exactly the token a MIDI 1.0 tokenizer emits (real-time bytes exactly once, completed messages made of the status and the bytes received in order), keeps tokens already pending, never aliases an emitted buffer from a non-idle state and re-establishes the state invariant; every token shape is one C02 proves decodable; Parser feed/feed_byte/_decode/retrieval are abstractly interpreted on a symbolic stream (channel, real-time inside a message, 3-byte sysex) and must hand out exactly its messages. Decoder layouts (token -> message -> same bytes) are shared with C01; constructed Parser/Tokenizer queues are empty, unbounded and not shared.',
             note='Trusted: abstract interpreter; the reference transition relation in midolint/rules/c04.py (allows both reset and keep where the properties allow both); C02 for token->message. No byte stream is executed.',
             ref='DESIGN.md §3 C04'),
 'C05': dict(tech='abstract interpretation of Parser and ParserQueue histories on a symbolic stream under every 2-cut, byte-wise and constructor feeding with retrieval calls in between; the C04 one-step transitions; purity and single-writer rules',
             text='One symbolic stream is fed to the interpreted Parser at once, byte by byte, through the constructor, through parse/parse_all and cut at every offset; the messages must be the same four each time; a history interleaving feed/feed_byte with pending/__len__/get_message/iteration must observe first-in first-out delivery, pending = number retrievable, None exactly when empty. The general induction is carried by the C04 one-step transitions (pending tokens kept, state a function of the bytes alone), the purity rule (no method of Tokenizer/Parser reads anything but fields, arguments and constants) and the closed writer set of the tokenizer fields. ParserQueue is interpreted with queue and lock doubles: put_bytes in two chunks with a put in between gives the stream order, poll/iterpoll hand out FIFO then None, and all parser steps happen under the one lock made by __init__. Short streams whose last byte completes a message must leave nothing behind in the tokenizer for every entry point; constructed queues are unbounded. Tokenizer.feed is shown to be a fold of feed_byte by interpretation (one call, every 2-cut, byte-wise and list/tuple/bytes/bytearray chunks leave the same state and queue), tokenizer iteration is FIFO.',
             note='Trusted: abstract interpreter (lazy generator model), name resolution. The chunking argument for arbitrary streams is the induction over one-step transitions; the stream scenarios are its base cases at every cut of every message kind, not a sample of runs (data bytes are symbolic).',
             ref='DESIGN.md §3 C05'),
 'C06': dict(tech='one-step abstract transitions of the tokenizer read as resynchronisation obligations',
             text='For every status byte that starts a message the post-state is the fresh state whatever the pre-state was (prefix forgotten); a real-time byte inside an open sysex leaves the sysex state untouched and is queued at once; from the fresh state data bytes complete exactly one token at the last byte; emitted buffers are final. With C02 this gives parse(P + encode(M)) = parse(P) + [M] by induction over bytes. Constructed Parser/Tokenizer queues are empty, unbounded (a bounded deque drops the head of long streams) and per instance. Tokenizer.feed as a fold of feed_byte is decided by interpretation (shared with C05).',
             note='Trusted: as C04. Chains of length <= 3 are covered by the k-indexed pre-states; no stream is run.',
             ref='DESIGN.md §3 C06'),
 'C07': dict(tech='abstract interpretation of write_track/read_track/_save/_load over symbolic tracks in a wire-format domain (bit layouts, VLQ markers, struct fields, symbolic runs)',
             text='About 60 symbolic tracks (all message kinds, running-status runs and breaks, sysex, all meta types incl. unknown, end_of_track placements) are written abstractly, the chunk length is compared with what follows, the items are served back to the abstractly interpreted reader and every message must come back equal in class, attributes and delta time with one trailing end_of_track; header round trip, save() and write_track guards (real-time, negative/non-integral time, type 0 track count), REALTIME_TYPES = real-time rows of SPECS. The VLQ function bodies (C08 R08.1) and the text codec helper bodies (C17 R17.4) are analysed here too, since the scenarios use their summaries.',
             note='Trusted: abstract interpreter and wire domain; VLQ/read_bytes/struct/encode_string summaries (bodies checked by C08 R08.1, C09 R09.6, C17). Not decided: equality of arbitrary whole files, load-save-load fixed point on mutated bytes (values, not shape).',
             ref='DESIGN.md §3 C07'),
 'C08': dict(tech='abstract interpretation of writer and reader against an independent reference SMF encoder; bit-layout analysis of the VLQ functions; range-class tracing of clip',
             text='Writer output for ~60 symbolic tracks must equal the reference SMF 1.0 encoding item for item (running status rules, sysex/meta framing, FF 2F 00, chunk lengths, header); the reader is interpreted on the reference encodings incl. legal alternatives (running status, long header, tracks without end_of_track ending in 2-byte events); encode_variable_int/read_variable_int/decode_variable_int are interpreted in the bit domain for 1..5 groups, minimal and padded; clip is traced for byte classes 0..126/127/128..255 in channel and sysex data; the debug wrapper is a transparent observer.',
             note='Trusted: midolint.smf reference encoder and SMF tables (the oracle), abstract interpreter. Not decided: byte-exact comparison with an external decoder over all event lists.',
             ref='DESIGN.md §3 C08'),
 'C09': dict(tech='interval-set reduction of the spec check methods vs documentation; abstract interpretation of MetaMessage.bytes/build_meta_message/from_bytes/__init__/_setattr in the bit-layout domain; finite table walks',
             text='Per meta type: accepted domain = documented domain, encoding = FF type VLQ(len(payload)) payload with every item a byte and the SMF bit layout, decode(encode(m)) = m through the reader path, from_bytes on payload lengths at the VLQ boundaries, all 256 denominators and 30 keys enumerated through check/encode/decode, check-before-store in __init__/_setattr at both range limits, registry and read_bytes limit. The text codec helper bodies (C17 R17.4) are analysed here too.',
             note='Known findings D6 (smpte_offset hours overlap) and D7 (sequencer_specific unchecked) are listed in known_findings.json. Trusted: abstract interpreter, SMF meta table, documentation table. Text payloads are symbolic byte runs (codec behaviour is C17 / not decided).',
             ref='DESIGN.md §3 C09'),
})
CHECKS.update({
 'C10': dict(tech='Eraser-style lockset audit over abstract executions of every public call of every port kind (lock, queue and device doubles; event log); alias-aware guarded-by sweep over all methods of the port family; lock-order and dummy-lock reachability rules; copy-on-send by abstract interpretation',
             text='Decides the lock discipline that makes exactly-once hold in every interleaving, not the interleavings: 40+ abstract executions (receive with/without pending, blocking with delayed delivery, poll, iter_pending, iteration with the device closing, send/reset/panic/close on BaseInput, BaseOutput, BaseIOPort, EchoPort, IOPort, MultiPort) are audited event by event - every use of a pending queue happens with a real lock held and one lock is common to all uses, each popleft is in the same acquisition as the emptiness test guarding it, device hooks run under the port lock, sleep() runs with no lock held, no call raises; a syntactic sweep (aliases of self._lock/self._messages followed) covers methods the scenarios do not run; a class without a real lock must not reach lock-relying base methods on a shared queue; lock order over container->child edges is acyclic; the device receives a copy; ParserQueue feeds and drains under one lock. A receiver abandoning iter_pending()/iteration after one message must leave the rest deliverable (R10.9).',
             note='Assumes CPython atomicity of single deque operations and RLock semantics. NOT decided: delivery order / exactly-once as observed histories under real schedules (needs schedule exploration - another technique); backends with their own queue+lock (rtmidi, amidi) are outside the analysed family (listed in evidence; thorough tier applies the rules to the others).',
             ref='DESIGN.md §3 C10'),
 'C11': dict(tech='typestate obligations by abstract interpretation of single port API calls from constructed abstract pre-states with scripted device doubles',
             text='close() from open: reset (32 messages) then exactly one _close, closed set, also when reset fails; close() from closed: nothing; send on closed: ValueError, device untouched; receive/poll/iteration drain pending messages before looking at closed; iteration ends quietly whether closed before or inside _receive; blocking receive returns the message delivered after k polls with k sleeps, poll never sleeps; MultiPort.receive(block=True) with a pending child message terminates (an endless generator under extend is reported as non-termination); IOPort/EchoPort/MultiPort built by their real constructors. Socket ports: every read follows a positive readability poll, also with a message half received (shared with C18). Socket ports whose peer has gone (every write fails with EPIPE and _send closes the port): close, with and without autoreset, directly or after a failing send, returns, releases once and leaves the port closed (found D20).',
             note='Trusted: abstract interpreter (with-blocks execute their body, generators evaluated eagerly), device doubles. Not decided: wall-clock promptness; threads (C10).',
             ref='DESIGN.md §3 C11'),
 'C12': dict(tech='abstract interpretation of merge_tracks (generators, stable sort on folded keys) against a reference merge derived from the property',
             text='merge_tracks is interpreted on ten track lists exercising every ordering decision (ties across and within tracks, tie order vs type order, end_of_track missing/repeated/in the middle/longest, empty and no tracks), with and without skip_checks; result compared event for event with a reference merge (absolute tick, (time, track, index) order, one trailing end_of_track, duration of the longest input); inputs must be untouched and not aliased. Gaps of 2^28+5 .. 2^70 ticks and single-message tracks are among the scenarios; MidiFile.merged_track must merge the current contents (no memo; shared with C16).',
             note='Delta times are small concrete integers standing for the general prefix-sum argument; attribute values are symbolic. Trusted: abstract interpreter, reference merge.',
             ref='DESIGN.md §3 C12'),
 'C13': dict(tech='abstract interpretation in a polynomial domain over positive real symbols (ticks, tempos, ticks_per_beat, clock readings)',
             text='MidiFile.__iter__/length with merge and tick2second inlined must yield t*M/(1e6*B) with M the tempo in force before each message (500000 until the first set_tempo, set_tempo applies to later deltas only), zero deltas 0, length the sum, type 2 refused; play() with a symbolic clock must sleep exactly (sum of times) - (now - start) when positive, read start once, yield after the sleep decision, filter meta messages; unit conversions are exact monomials with round-before-int, mutually inverse. Premises shared with C12 (merge order and completeness) and C16 (no memo of the merge) are discharged here as well.',
             note='NOT decided: the numeric clause - floating point error of cumulative sums vs the exact integral, inverse up to rounding at extreme tempos (runtime values no static argument in reach bounds).',
             ref='DESIGN.md §3 C13'),
 'C14': dict(tech='abstract interpretation in a symbolic string domain (literal text + decimal/float/hex segments); malformed-text catalogue through the interpreted parser; symbolic eval(repr(x)) by parsing the symbolic repr text',
             text='str(m) is computed symbolically for all 18 types (negative pitch range, sysex of 0/1/3 symbolic bytes, int and float symbolic times) and fed to the interpreted from_str: every attribute must come back symbol for symbol; dict/from_dict likewise; 30 malformed texts must raise ValueError and nothing else; parse_string_stream must report them with line numbers and continue; repr(x) of messages, meta messages, tracks and files is computed symbolically, parsed with ast.parse and the constructor call it denotes is interpreted: the object built must equal x. That every entry point leaves messages in canonical form (sysex data a tuple) is shared with C03.',
             note='Float <-> text exactness is Python\'s repr guarantee (trusted). A text carrying skip_checks=/self= words is outside "valid message".',
             ref='DESIGN.md §3 C14'),
 'C15': dict(tech='abstract interpretation of freeze/thaw/copy over all six message classes and None; MRO resolution of mutators; hashability scan',
             text='freeze and thaw map each class to its counterpart (mutually inverse, no dead isinstance branch), results are equal but independent objects, freeze of frozen is identity, None maps to None, non-message rejected; copy() gives a new object with its own dict, overrides go through the checks, frozen copies stay frozen; frozen __setattr__/__delattr__ resolve to methods raising on every path; __eq__/__hash__ are functions of vars(self) only and stored values are hashable. __eq__ and __hash__ are interpreted: equal attribute dicts in either insertion order compare and hash equal, any single differing attribute (time included) compares unequal, the hash reads nothing but vars(self).',
             note='Known finding D15 (sequencer_specific default [[]] unhashable). UnknownMetaMessage.copy with an invalid time is unchecked (D7 family, noted).',
             ref='DESIGN.md §3 C15'),
 'C16': dict(tech='no-derived-state scan of MidiFile + abstract observe-edit-observe scenarios compared with a freshly built file',
             text='No MidiFile method outside __init__/_load stores an instance attribute or uses a caching decorator; observers leave file, tracks and messages untouched; for each observer (iterate, length, merged_track, save) and each documented edit route (tracks.append, add_track, track.append, delete, message time, ticks_per_beat, type) the observation after the edit equals that of a fresh file with the same contents.',
             note='Trusted: abstract interpreter. Edits are the documented routes (list operations / attribute assignment).',
             ref='DESIGN.md §3 C16'),
 'C17': dict(tech='abstract interpretation with a faithful model of `with <@contextmanager generator>` and a store for globals written through `global`; failure-point scenarios for _load/_save; un-summarised interpretation of the codec helpers',
             text='MidiFile._load/_save are interpreted with charset X on files that succeed and that fail at every kind of point the property names (truncated header/track/event, invalid data byte, undecodable text, bad time in the n-th message, unencodable text): after the call - returned or raised - the process-wide charset is latin1 again, every encode_string/decode_string during the call saw X, a text meta message encoded right after sees latin1; nested overrides unwind level by level also on exceptions; only meta_charset (and helpers reachable only from it) assigns the global; encode_string/decode_string apply exactly .encode/.decode(<charset in force at call time>) (parameter defaults are evaluated at definition time by the interpreter, so early binding is caught). Each of the 8 text meta types makes exactly one helper call per direction under the charset in force and stores its result unchanged; every library call inside meta_charset is forced to fail in turn (fault injection) and must not leak the override.',
             note='Trusted: contextmanager semantics (body exception raised at the yield). Not decided: encodability of a given text in a given charset; concurrent loads with different charsets (global by design).',
             ref='DESIGN.md §3 C17'),
 'C18': dict(tech='abstract interpretation of SocketPort/PortServer on scripted socket/select doubles for every cut offset and several segmentations',
             text='For a stream of one complete message plus the first k bytes of another (k=0..3), with and without pauses, iteration yields exactly the complete messages, ends without exception, the port reports closed and socket + both file objects are closed; select is polled with timeout 0 and every read follows a positive poll; close releases what __init__ acquired; PortServer.poll accepts a waiting client, delivers its message and terminates; format_address/parse_address are inverse on sample pairs and invalid addresses raise ValueError. The cut-off second message is a channel message or a sysex cut after 1..4 bytes.',
             note='Not decided: OS-level behaviour (connection reset -> OSError is re-raised and iteration would raise); segmentation independence proper is C05.',
             ref='DESIGN.md §3 C18'),
 'C19': dict(tech='abstract interpretation of write_syx_file/read_syx_file on a file double, hex text in the symbolic string domain',
             text='Lists mixing sysex messages of 0/1/3 symbolic bytes with other messages are written (binary and text) and read back: exactly the sysex messages in order with equal data; no sysex -> empty file -> []; other whitespace layouts parse alike; non two-digit hex raises ValueError; first-byte format detection after the empty-file guard. The Parser queue read_syx_file fills before retrieving must be unbounded.',
             note='Trusted: bytearray.fromhex semantics as modelled; C04/C06 for the parser. File system behaviour not modelled.',
             ref='DESIGN.md §3 C19'),
 'C20': dict(tech='abstract interpretation of Backend over the full finite configuration grid with recording module/environment doubles against a reference decision table',
             text='1152 configurations x 3 open calls plus name/api split, listing and set_backend cases: which module is imported and when (lazily, once), constructor name by precedence explicit > environment > default, api reaching every constructor and query with explicit api winning, native IOPort vs wrapper, listings from get_devices, top-level rebinding. set_backend is also interpreted in two-call histories (same name/api with another use_environ; another backend first).',
             note='Backend name containing "/" together with an explicit api= is unspecified and not in the grid. Trusted: decision table transcribed from the property and docs/backends.',
             ref='DESIGN.md §3 C20'),
})
NA = {}
def main():
    props = [json.loads(l) for l in open(os.path.join(HERE, 'properties.jsonl'))]
    checks = []
    na = []
    for p in props:
        pid = p['id']
        if pid in CHECKS and os.path.exists(os.path.join(HERE, 'midolint', 'rules', pid.lower() + '.py')):
            c = CHECKS[pid]
            mod = importlib.import_module(f'midolint.rules.{pid.lower()}')
            checks.append({
                'property_id': pid,
                'quick_cmd': f'./check {pid}',
                'thorough_cmd': f'./check {pid} --tier thorough',
                'evidence_file': f'/verif/evidence/{pid}.json',
                'replay_cmd_template': f'./check {pid} --replay {{path}}',
                'engine': 'midolint',
                'level_claimed': {'category': mod.LEVEL, 'text': c['text'], 'design_ref': c['ref']},
                'level_note': c['note'],
                'technique': 'static analysis: ' + c['tech'],
            })
        else:
            na.append({'property_id': pid, 'reason': NA.get(pid, 'static check for this property is not built yet in this revision (work in progress)')})
    man = {
        'version': 1,
        'setup_cmd': 'true',
        'hooks': {
            'guard': 'MIDO_MIDO_VERIF',
            'enable': 'none needed - the source is analysed, not instrumented; no hook exists in /repo',
            'baseline_off_cmd': 'cd /repo && /venv/bin/python -m pytest -ra -q -p no:cacheprovider --timeout=900 --continue-on-collection-errors',
            'source_commits': [],
            'add_only': True,
        },
        'engines': [{'name': 'midolint', 'path': '/verif/midolint', 'serves_properties': [c['property_id'] for c in checks],
                     'kind_free_text': 'repository-specific static analyser on the Python ast: program model (imports, MRO, aliases), constant folder for module tables, path enumeration, bit-layout abstract domain, abstract interpreter for codec functions, interval sets for guards, effect/lockset/exception-flow rules. Pure stdlib, run with /venv/bin/python; never imports or runs mido.'}],
        'checks': checks,
        'not_applicable': na,
        'notes': 'Exit codes: 0 held (KNOWN-FINDING lines for listed open findings), 1 VIOLATION, 2 ANALYSIS-ERROR (anchor missing / checker cannot analyse). Known findings: /verif/known_findings.json. MIDOLINT_REPO overrides the analysed tree (default /repo).',
    }
    json.dump(man, open(os.path.join(HERE, 'MANIFEST.json'), 'w'), indent=1)
    print(len(checks), 'checks,', len(na), 'not applicable')
main()
